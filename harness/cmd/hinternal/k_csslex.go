package main

// Kernel `csslex` (C16 / C12): the CSS tokenizer and the token printer.
//
//   csslex lex <recordAllComments> <hex bytes>
//       real css_lexer.Tokenize on the bytes: every token with kind, range, UnitOffset, flags and
//       Token.DecodedText (PANIC if that slices out of range), AllComments, LegalComments (Loc + TokenIndexAfter),
//       SourceMapComment range.
//   csslex print <minify> <ascii> <token tree>
//       real css_printer.Print of a declaration `zz:<tokens>` (see the second half of this file).
//
// Inputs: (a) texts put together from generated tokens of every kind with every escape form and separator,
// (b) byte mutations of (a) (ill-formed UTF-8, NUL, unterminated strings/urls/comments, CR/LF/FF), (c) noise
// over a small alphabet of the bytes the lexer branches on.  All from the one *gen.Rand.

import (
	"fmt"
	"strings"

	"github.com/evanw/esbuild/internal/ast"
	"github.com/evanw/esbuild/internal/compat"
	"github.com/evanw/esbuild/internal/config"
	"github.com/evanw/esbuild/internal/css_ast"
	"github.com/evanw/esbuild/internal/css_lexer"
	"github.com/evanw/esbuild/internal/css_parser"
	"github.com/evanw/esbuild/internal/css_printer"
	"github.com/evanw/esbuild/internal/logger"
	"github.com/evanw/esbuild/verifharness/gen"
)

func cssLexLine(src string, recordAll bool) string {
	log := logger.NewDeferLog(logger.DeferLogNoVerboseOrDebug, nil)
	res := css_lexer.Tokenize(log, logger.Source{Index: 0, KeyPath: logger.Path{Text: "a.css"}, Contents: src},
		css_lexer.Options{RecordAllComments: recordAll})
	var toks []string
	for _, t := range res.Tokens {
		dec := guard(func() string { return hexBytes([]byte(t.DecodedText(src))) })
		toks = append(toks, fmt.Sprintf("%d:%d:%d:%d:%d:%s", uint8(t.Kind), t.Range.Loc.Start, t.Range.Len, t.UnitOffset, uint8(t.Flags), dec))
	}
	var allC []string
	for _, c := range res.AllComments {
		allC = append(allC, fmt.Sprintf("%d:%d", c.Loc.Start, c.Len))
	}
	var legal []string
	for _, c := range res.LegalComments {
		legal = append(legal, fmt.Sprintf("%d:%d", c.Loc.Start, c.TokenIndexAfter))
	}
	sm := "-"
	if res.SourceMapComment.Range.Loc.Start != 0 || res.SourceMapComment.Range.Len != 0 || res.SourceMapComment.Text != "" {
		sm = fmt.Sprintf("%d:%d", res.SourceMapComment.Range.Loc.Start, res.SourceMapComment.Range.Len)
	}
	j := func(l []string) string {
		if len(l) == 0 {
			return "-"
		}
		return strings.Join(l, " ")
	}
	return fmt.Sprintf("%s | %s | %s | %s", j(toks), j(allC), j(legal), sm)
}

// ---- generators ----

var cssNameChars = []string{"a", "b", "e", "E", "u", "r", "l", "U", "R", "L", "x", "z", "_", "-", "0", "1", "9", "f", "F", "é", " ", "\ufffd", "\U0001F600", "\ufeff", "\U00100000", "\U0010FFFF", "\x00"}

func cssEscape(r *gen.Rand) string {
	switch r.Intn(12) {
	case 0:
		return "\\" + []string{"(", ")", " ", "\"", "'", "\\", "!", "g", "z", "-", "~", "\t", "é", "\U0001F600", "\x00"}[r.Intn(15)]
	case 1: // hex escape, 1..6 digits
		n := 1 + r.Intn(6)
		s := "\\"
		for i := 0; i < n; i++ {
			s += string("0123456789abcdefABCDEF"[r.Intn(22)])
		}
		return s + []string{"", " ", "\t", "\n", "\r\n", "\r", "\f", "  "}[r.Intn(8)]
	case 2: // special values
		return []string{"\\0 ", "\\000000", "\\d800 ", "\\dfff ", "\\110000 ", "\\10ffff ", "\\ffffff", "\\fffd ", "\\41", "\\75", "\\72 ", "\\6c ", "\\6C", "\\31 ", "\\2d "}[r.Intn(15)]
	case 3: // more than six digits
		return "\\0000411"
	default:
		return cssNameChars[r.Intn(len(cssNameChars))]
	}
}

func cssName(r *gen.Rand) string {
	if r.Chance(1, 8) {
		return r.Pick([]string{"url", "URL", "Url", "u\\72l", "\\75rl", "ur\\6c ", "var", "calc", "--x", "-x", "-", "--", "e3", "e-3", "x"})
	}
	s := ""
	switch r.Intn(6) {
	case 0:
		s = "-"
	case 1:
		s = "--"
	}
	n := 1 + r.Intn(4)
	for i := 0; i < n; i++ {
		if r.Chance(1, 4) {
			s += cssEscape(r)
		} else {
			s += cssNameChars[r.Intn(len(cssNameChars)-1)] // NUL only rarely, through cssEscape
		}
	}
	return s
}

func cssNumber(r *gen.Rand) string {
	s := r.Pick([]string{"", "", "+", "-"})
	switch r.Intn(6) {
	case 0:
		s += r.Pick([]string{"0", "1", "42", "007"})
	case 1:
		s += r.Pick([]string{"1.5", "0.0", "10.25"})
	case 2:
		s += r.Pick([]string{".5", ".0", ".125"})
	case 3:
		s += r.Pick([]string{"1.", "0."}) // esbuild takes the dot
	case 4:
		s += r.Pick([]string{"1e3", "1E3", "1e+3", "1e-3", "1.5e3", ".5e-2", "1.e3"})
	case 5:
		s += r.Pick([]string{"1e", "1e+", "1e-", "1ex", "1e+x", "1e-x", "1E"})
	}
	return s
}

func cssStringBody(r *gen.Rand, q string) string {
	s := ""
	n := r.Intn(5)
	for i := 0; i < n; i++ {
		switch r.Intn(10) {
		case 0:
			s += "\\\n"
		case 1:
			s += "\\\r\n"
		case 2:
			s += r.Pick([]string{"\\\r", "\\\f", "\\\rx"})
		case 3:
			s += "\\" + q
		case 4:
			s += cssEscape(r)
		case 5:
			s += r.Pick([]string{"'", "\"", "/*", "*/", "(", ")", " ", "\t", "\x00", "é", "\U00100000 ", "\U00100000\t", "\U0010FFFFa", "\U00100000"})
		default:
			s += r.Pick([]string{"a", "b", "1", "f", " ", "x"})
		}
	}
	return s
}

func cssURLBody(r *gen.Rand) string {
	s := r.Pick([]string{"", "", " ", "  ", "\n", "\t "})
	n := r.Intn(5)
	for i := 0; i < n; i++ {
		switch r.Intn(12) {
		case 0:
			s += cssEscape(r)
		case 1:
			s += r.Pick([]string{" ", "\n", "\r\n", " x"}) // inner whitespace: bad url unless before ")"
		case 2:
			s += r.Pick([]string{"\"", "'", "(", "\x01", "\x7f", "\x0b", "\x00", "\\\n"}) // bad url triggers
		case 3:
			s += r.Pick([]string{"\\ ", "\\)", "\\(", "\\'"})
		default:
			s += r.Pick([]string{"a", "b", "/", ".", "x", "é", "1", "f", "#", "?"})
		}
	}
	return s + r.Pick([]string{"", "", " ", "\n ", "\\ ", "\\20 "})
}

func cssComment(r *gen.Rand) string {
	body := r.Pick([]string{"", " x ", "*", "**", "/", " * / ", "\n", "é"})
	switch r.Intn(8) {
	case 0:
		return "/*!" + body + "*/"
	case 1:
		return "/*" + body + r.Pick([]string{"@license", "@preserve", "@licens", "@ preserve", "x@licensee"}) + body + "*/"
	case 2:
		return "/*" + r.Pick([]string{"#", "@", "!"}) + " sourceMappingURL=" + r.Pick([]string{"a.map", "a.map x", "", " ", "é.map\ty"}) + " */"
	case 3:
		return "/*" + r.Pick([]string{"#", "@"}) + r.Pick([]string{" sourceMappingURL", "sourceMappingURL=x", " sourceMappingURL=*/x"}) + "*/"
	default:
		return "/*" + body + "*/"
	}
}

func cssToken(r *gen.Rand, e *emitter) string {
	switch r.Intn(24) {
	case 0, 1:
		e.stat("gen-ident")
		return cssName(r)
	case 2:
		e.stat("gen-function")
		return cssName(r) + "("
	case 3:
		e.stat("gen-url")
		return r.Pick([]string{"url(", "URL(", "u\\72l(", "\\75rl(", "Url("}) + cssURLBody(r) + r.Pick([]string{")", ")", ")", ""})
	case 4:
		e.stat("gen-url-quoted")
		q := r.Pick([]string{"\"", "'"})
		return "url(" + r.Pick([]string{"", " ", "\n"}) + q + cssStringBody(r, q) + q + r.Pick([]string{"", " "}) + ")"
	case 5:
		e.stat("gen-at")
		return "@" + r.Pick([]string{cssName(r), cssName(r), "", "1", "-", "--", "-1", "\\\n"})
	case 6:
		e.stat("gen-hash")
		return "#" + r.Pick([]string{cssName(r), cssName(r), "1a", "-", "--", "-1", "", "\\\n", "0"})
	case 7, 8:
		e.stat("gen-string")
		q := r.Pick([]string{"\"", "'"})
		return q + cssStringBody(r, q) + r.Pick([]string{q, q, q, "\n", "", "\r\n", "\f"})
	case 9:
		e.stat("gen-number")
		return cssNumber(r)
	case 10:
		e.stat("gen-percentage")
		return cssNumber(r) + "%"
	case 11, 12:
		e.stat("gen-dimension")
		return cssNumber(r) + r.Pick([]string{"px", "em", "e3x", "e", "E", "-x", "--", "x1", cssName(r), "\\65 3", "\\-"})
	case 13:
		e.stat("gen-delim")
		return r.Pick([]string{"+", "-", ".", "/", "*", "<", ">", "~", "&", "|", "!", "=", "^", "$", "#", "@", "\\\n", "%", "?", "`", "\x7f", "\x01"})
	case 14:
		e.stat("gen-cdo-cdc")
		return r.Pick([]string{"<!--", "-->", "<!-", "--", "->", "<!", "--->", "<!---"})
	case 15:
		e.stat("gen-punct")
		return r.Pick([]string{"(", ")", "[", "]", "{", "}", ",", ":", ";"})
	case 16, 17:
		e.stat("gen-ws")
		return r.Pick([]string{" ", "  ", "\t", "\n", "\r\n", "\r", "\f", " \n "})
	case 18, 19:
		e.stat("gen-comment")
		return cssComment(r)
	case 20:
		e.stat("gen-slashslash")
		return "//" + r.Pick([]string{"", " x", "/", " x\n//y", "\r"})
	case 21:
		e.stat("gen-unterminated-comment")
		if r.Chance(1, 4) {
			return "/*" + r.Pick([]string{"", "*", " x", "!x"})
		}
		return cssComment(r)
	case 22:
		e.stat("gen-raw-byte")
		return string([]byte{byte(r.Intn(256))})
	default:
		e.stat("gen-sign-dot")
		return r.Pick([]string{"+.", "-.", "+.5", "-.5", "+a", "-a", ".a", "+-1", "-\\", "-\xff", "-\ufffd", "\\", "-\\\n"})
	}
}

var cssNoise = []byte(" \t\n\r\f\"'()\\/*-+.<>!@#%019aeEfFuUrRlL{}[],:;_\x00\x7f\x0b\x80\xc3\xa9\xef\xbf\xbd\xbb\xed\xa0\xf4\x90")

func cssGenText(r *gen.Rand, e *emitter) string {
	switch r.Intn(10) {
	case 0, 1, 2, 3, 4: // tokens
		e.stat("stream-tokens")
		s := ""
		if r.Chance(1, 12) {
			s = "\ufeff"
		}
		n := r.Intn(8)
		for i := 0; i < n; i++ {
			s += cssToken(r, e)
			s += r.Pick([]string{"", "", " ", "/**/", "\n"})
		}
		return s
	case 5, 6, 7: // mutated tokens
		e.stat("stream-mutated")
		s := ""
		n := 1 + r.Intn(6)
		for i := 0; i < n; i++ {
			s += cssToken(r, e)
			s += r.Pick([]string{"", " "})
		}
		b := []byte(s)
		m := 1 + r.Intn(3)
		for i := 0; i < m && len(b) > 0; i++ {
			k := r.Intn(len(b))
			x := cssNoise[r.Intn(len(cssNoise))]
			switch r.Intn(3) {
			case 0:
				b[k] = x
			case 1:
				b = append(b[:k], append([]byte{x}, b[k:]...)...)
			case 2:
				b = append(b[:k], b[k+1:]...)
			}
		}
		if r.Chance(1, 6) && len(b) > 0 { // cut somewhere: unterminated things
			b = b[:r.Intn(len(b))]
		}
		return string(b)
	default: // noise
		e.stat("stream-noise")
		n := r.Intn(14)
		b := make([]byte, n)
		for i := range b {
			b[i] = cssNoise[r.Intn(len(cssNoise))]
		}
		return string(b)
	}
}

func cssLexStats(src string, e *emitter) {
	log := logger.NewDeferLog(logger.DeferLogNoVerboseOrDebug, nil)
	res := css_lexer.Tokenize(log, logger.Source{Contents: src}, css_lexer.Options{RecordAllComments: true})
	for _, t := range res.Tokens {
		e.stat("tok-" + t.Kind.String())
		raw := src[t.Range.Loc.Start:t.Range.End()]
		if strings.Contains(raw, "\\") {
			e.stat("tok-with-escape")
		}
		if t.Flags&css_lexer.IsID != 0 {
			e.stat("tok-hash-id")
		}
		if t.Flags&css_lexer.DidWarnAboutSingleLineComment != 0 {
			e.stat("tok-slashslash-warned")
		}
	}
	if len(res.AllComments) > 0 {
		e.stat("has-comment")
	}
	if len(res.LegalComments) > 0 {
		e.stat("has-legal-comment")
	}
	if res.SourceMapComment.Text != "" {
		e.stat("has-sourcemap-comment")
	}
	if strings.HasPrefix(src, "\ufeff") {
		e.stat("has-bom")
	}
	for _, m := range log.Done() {
		switch {
		case strings.Contains(m.Data.Text, "terminate multi-line"):
			e.stat("msg-unterminated-comment")
		case strings.Contains(m.Data.Text, "Unterminated string"):
			e.stat("msg-unterminated-string")
		case strings.Contains(m.Data.Text, "end URL token"):
			e.stat("msg-bad-url")
		case strings.Contains(m.Data.Text, "Invalid escape"):
			e.stat("msg-invalid-escape")
		case strings.Contains(m.Data.Text, "non-printable"):
			e.stat("msg-non-printable")
		}
	}
}

func init() {
	kernels["csslex"] = func(r *gen.Rand, e *emitter, tier string) {
		for !e.full() {
			if r.Chance(2, 5) {
				cssPrintCase(r, e)
				continue
			}
			src := cssGenText(r, e)
			ra := r.Chance(1, 2)
			flag := "0"
			if ra {
				flag = "1"
			}
			e.stat("lex")
			cssLexStats(src, e)
			e.emit(fmt.Sprintf("csslex\tlex\t%s\t%s", flag, hexBytes([]byte(src))), cssLexLine(src, ra))
		}
	}
}

// ---- the printer half ----

func cssSerializeTokens(toks []css_ast.Token, recs []ast.ImportRecord, out *[]string) {
	for _, t := range toks {
		ws := 0
		if t.Whitespace&css_ast.WhitespaceBefore != 0 {
			ws |= 1
		}
		if t.Whitespace&css_ast.WhitespaceAfter != 0 {
			ws |= 2
		}
		url := ""
		if t.Kind == css_lexer.TURL && int(t.PayloadIndex) < len(recs) {
			url = recs[t.PayloadIndex].Path.Text
		}
		n := -1
		if t.Children != nil {
			n = len(*t.Children)
		}
		*out = append(*out, fmt.Sprintf("%d;%s;%d;%d;%s;%d", uint8(t.Kind), hexBytes([]byte(t.Text)), ws, t.UnitOffset, hexBytes([]byte(url)), n))
		if t.Children != nil {
			cssSerializeTokens(*t.Children, recs, out)
		}
	}
}

type cssFlatTok struct {
	kind css_lexer.T
	text string
}

func cssFlatten(toks []css_ast.Token, recs []ast.ImportRecord, out *[]cssFlatTok) {
	for _, t := range toks {
		switch t.Kind {
		case css_lexer.TWhitespace:
			continue
		case css_lexer.TURL:
			url := ""
			if int(t.PayloadIndex) < len(recs) {
				url = recs[t.PayloadIndex].Path.Text
			}
			*out = append(*out, cssFlatTok{t.Kind, url})
		default:
			*out = append(*out, cssFlatTok{t.Kind, t.Text})
		}
		if t.Children != nil {
			cssFlatten(*t.Children, recs, out)
			switch t.Kind {
			case css_lexer.TFunction, css_lexer.TOpenParen:
				*out = append(*out, cssFlatTok{css_lexer.TCloseParen, ")"})
			case css_lexer.TOpenBrace:
				*out = append(*out, cssFlatTok{css_lexer.TCloseBrace, "}"})
			case css_lexer.TOpenBracket:
				*out = append(*out, cssFlatTok{css_lexer.TCloseBracket, "]"})
			}
		}
	}
}

// relex the printed value; a quoted `url("…")` is read back as one URL token, as the parser does
func cssRelexFlat(src string) []cssFlatTok {
	log := logger.NewDeferLog(logger.DeferLogNoVerboseOrDebug, nil)
	res := css_lexer.Tokenize(log, logger.Source{Contents: src}, css_lexer.Options{})
	var all []cssFlatTok
	for _, t := range res.Tokens {
		if t.Kind == css_lexer.TWhitespace {
			continue
		}
		all = append(all, cssFlatTok{t.Kind, t.DecodedText(src)})
	}
	var out []cssFlatTok
	for i := 0; i < len(all); i++ {
		if all[i].kind == css_lexer.TFunction && strings.EqualFold(all[i].text, "url") && i+2 < len(all) &&
			all[i+1].kind == css_lexer.TString && all[i+2].kind == css_lexer.TCloseParen {
			out = append(out, cssFlatTok{css_lexer.TURL, all[i+1].text})
			i += 2
			continue
		}
		out = append(out, all[i])
	}
	return out
}

func cssGenValueText(r *gen.Rand, e *emitter) string {
	s := ""
	n := 1 + r.Intn(6)
	for i := 0; i < n; i++ {
		t := cssToken(r, e)
		if strings.ContainsAny(t, ";{}!") && r.Chance(9, 10) {
			t = "x"
		}
		s += t
		s += r.Pick([]string{"", "", " ", " ", "/**/", ","})
	}
	return s
}

func cssRandText(r *gen.Rand) string {
	switch r.Intn(4) {
	case 0: // arbitrary bytes
		n := r.Intn(5)
		b := make([]byte, n)
		for i := range b {
			b[i] = cssNoise[r.Intn(len(cssNoise))]
		}
		return string(b)
	case 1:
		return r.Pick([]string{"", "-", "--", "-1", "1a", "e3", "e-3", "E3x", "\x00", "a\x00b", "\ufeff", "a b", "a\nb", "é", "\xff1", "x\xffab", "é\t", "éa", "é1", "é x", "\nf", "\n\t", "\n ", "\n\n", "a\n", "e0", "e0x", "e-0", "E-1", "E9", "e", "e-", "e-x", "\U00100000", "\U00100000 b", "\U0010FFFF", "\U00100000\t", "\U00100000\tb", "\U00100000a", "\U00100000 ", "\U0010FFFFf", "\U0010FFFF 1", "\U0010FFFFF", "x\U00100000", "\U00100000\U00100000", "\U000FFFFF ", "\U000FFFFFa", "\ufeffa", "a</style>", "</styl", "x</sTyLe",
			"\U0001F600f", " ", "-\xff", "</style", "a</STYLE>", "'", "\"", "a'b\"c", "( )", "url", "\\", "a\\b", "linear-gradient", "matr\u0130x", "MATRIX3D"})
	default:
		n := 1 + r.Intn(4)
		s := ""
		for i := 0; i < n; i++ {
			s += cssNameChars[r.Intn(len(cssNameChars))]
		}
		return s
	}
}

func cssRandTokens(r *gen.Rand, depth int, recs *[]ast.ImportRecord) []css_ast.Token {
	n := r.Intn(5)
	if depth == 0 {
		n = 1 + r.Intn(5)
	}
	var toks []css_ast.Token
	for i := 0; i < n; i++ {
		var t css_ast.Token
		t.Whitespace = css_ast.WhitespaceFlags(r.Intn(4))
		switch r.Intn(14) {
		case 0, 1:
			t.Kind, t.Text = css_lexer.TIdent, cssRandText(r)
		case 2:
			t.Kind, t.Text = css_lexer.THash, cssRandText(r)
		case 3:
			t.Kind, t.Text = css_lexer.TAtKeyword, cssRandText(r)
		case 4:
			t.Kind, t.Text = css_lexer.TFunction, cssRandText(r)
			if r.Chance(1, 3) {
				t.Text = r.Pick([]string{"linear-gradient", "MATRIX", "matrix3d", "Radial-Gradient", "var", "rgb"})
			}
			if depth < 2 {
				kids := cssRandTokens(r, depth+1, recs)
				if r.Chance(1, 3) { // comma-separated arguments for the multi-line logic
					kids = nil
					m := r.Pick([]string{"2", "3", "6", "16"})
					cnt := map[string]int{"2": 2, "3": 3, "6": 6, "16": 16}[m]
					for k := 0; k < cnt; k++ {
						if k > 0 {
							kids = append(kids, css_ast.Token{Kind: css_lexer.TComma, Text: ",", Whitespace: css_ast.WhitespaceFlags(r.Intn(4))})
						}
						kids = append(kids, css_ast.Token{Kind: css_lexer.TNumber, Text: "1", Whitespace: css_ast.WhitespaceFlags(r.Intn(4))})
					}
				}
				t.Children = &kids
			} else {
				kids := []css_ast.Token{}
				t.Children = &kids
			}
		case 5:
			num := cssNumber(r)
			t.Kind, t.Text, t.UnitOffset = css_lexer.TDimension, num+cssRandText(r), uint16(len(num))
		case 6:
			t.Kind, t.Text = css_lexer.TString, cssRandText(r)
		case 7:
			t.Kind = css_lexer.TURL
			t.PayloadIndex = uint32(len(*recs))
			*recs = append(*recs, ast.ImportRecord{Kind: ast.ImportURL, Path: logger.Path{Text: cssRandText(r)}})
		case 8:
			t.Kind, t.Text = css_lexer.TNumber, cssNumber(r)
		case 9:
			t.Kind, t.Text = css_lexer.TComma, ","
		case 10:
			t.Kind = []css_lexer.T{css_lexer.TOpenParen, css_lexer.TOpenBracket, css_lexer.TOpenBrace}[r.Intn(3)]
			t.Text = map[css_lexer.T]string{css_lexer.TOpenParen: "(", css_lexer.TOpenBracket: "[", css_lexer.TOpenBrace: "{"}[t.Kind]
			kids := []css_ast.Token{}
			if depth < 2 {
				kids = cssRandTokens(r, depth+1, recs)
			}
			t.Children = &kids
		case 11:
			t.Kind, t.Text = css_lexer.TUnterminatedString, "\"abc"
		case 12:
			t.Kind = css_lexer.TWhitespace
		default:
			d := r.Pick([]string{"+", "-", "/", "*", ".", ":", "%"})
			t.Kind, t.Text = map[string]css_lexer.T{"+": css_lexer.TDelimPlus, "-": css_lexer.TDelimMinus, "/": css_lexer.TDelimSlash,
				"*": css_lexer.TDelimAsterisk, ".": css_lexer.TDelimDot, ":": css_lexer.TColon, "%": css_lexer.TDelim}[d], d
		}
		toks = append(toks, t)
	}
	return toks
}

func cssPrintCase(r *gen.Rand, e *emitter) {
	minify := r.Chance(1, 2)
	ascii := r.Chance(1, 2)
	inlineUnsup := r.Chance(1, 4)
	var toks []css_ast.Token
	var recs []ast.ImportRecord
	fromParser := r.Chance(3, 5)
	if fromParser {
		e.stat("print-from-parser")
		value := cssGenValueText(r, e)
		src := "a{zz:" + value + "}"
		log := logger.NewDeferLog(logger.DeferLogNoVerboseOrDebug, nil)
		tree := css_parser.Parse(log, logger.Source{Index: 0, KeyPath: logger.Path{Text: "a.css"}, Contents: src},
			css_parser.OptionsFromConfig(config.LoaderCSS, &config.Options{MinifyWhitespace: minify}))
		found := false
		for _, rule := range tree.Rules {
			if sel, ok := rule.Data.(*css_ast.RSelector); ok {
				for _, inner := range sel.Rules {
					if d, ok := inner.Data.(*css_ast.RDeclaration); ok && d.KeyText == "zz" && !found {
						toks, recs, found = d.Value, tree.ImportRecords, true
						if d.Important {
							e.stat("print-parsed-important")
						}
					}
				}
			}
		}
		if !found {
			e.stat("print-parse-no-declaration")
			toks = nil
		}
	} else {
		e.stat("print-hand-built")
		toks = cssRandTokens(r, 0, &recs)
	}
	var items []string
	cssSerializeTokens(toks, recs, &items)
	treeStr := "-"
	if len(items) > 0 {
		treeStr = strings.Join(items, ",")
	}
	b := func(x bool) string {
		if x {
			return "1"
		}
		return "0"
	}
	var features compat.CSSFeature
	if inlineUnsup {
		features = compat.InlineStyle
	}
	printed := guard(func() string {
		tree := css_ast.AST{Rules: []css_ast.Rule{{Data: &css_ast.RDeclaration{KeyText: "zz", Value: toks}}}, ImportRecords: recs}
		res := css_printer.Print(tree, ast.SymbolMap{}, css_printer.Options{MinifyWhitespace: minify, ASCIIOnly: ascii, UnsupportedFeatures: features})
		out := string(res.CSS)
		out = strings.TrimPrefix(out, "zz:")
		if !minify {
			out = strings.TrimSuffix(out, "\n")
		}
		out = strings.TrimSuffix(out, ";")
		return "ok" + out
	})
	e.stat("print")
	expected := "PANIC"
	if printed != "PANIC" {
		expected = hexBytes([]byte(printed[2:]))
	}
	e.emit(fmt.Sprintf("csslex\tprint\t%s\t%s\t%s\t%d\t%s", b(minify), b(ascii), b(inlineUnsup), len(toks), treeStr), expected)
	if printed == "PANIC" {
		e.stat("print-panic")
		return
	}
	// the property itself (statistics only): does the printed text lex back to the tokens that were printed?
	var want []cssFlatTok
	cssFlatten(toks, recs, &want)
	got := cssRelexFlat(printed[2:])
	same := len(want) == len(got)
	if same {
		for i := range want {
			if want[i] != got[i] {
				same = false
			}
		}
	}
	key := "relex-same"
	if !same {
		key = "relex-differs"
	}
	if fromParser {
		e.stat(key + "-parsed")
	} else {
		e.stat(key + "-hand-built")
	}
	// and the tokenizer once more on the printed declaration
	full := "zz:" + printed[2:] + ";"
	if !e.full() {
		e.stat("lex")
		e.stat("lex-of-printed")
		e.emit(fmt.Sprintf("csslex\tlex\t1\t%s", hexBytes([]byte(full))), cssLexLine(full, true))
	}
}
