package main

import (
	"fmt"
	"math"
	"strconv"
	"strings"

	"github.com/evanw/esbuild/internal/ast"
	"github.com/evanw/esbuild/internal/compat"
	"github.com/evanw/esbuild/internal/helpers"
	"github.com/evanw/esbuild/internal/js_ast"
	"github.com/evanw/esbuild/internal/js_printer"
	"github.com/evanw/esbuild/internal/logger"
	"github.com/evanw/esbuild/internal/renamer"
)

// kernel "printkey": the members of object literals and classes as the REAL printer prints them (printProperty, printClass,
// printExpr for EObject) against the Lean model Impl/PrintKey.lean.
//
//	obj / cls: a member list is built as js_ast by hand (keys: EString, ENumber, EBigInt, EPrivateIdentifier, ENameOfSymbol,
//	           EIdentifier, EInlinedEnum; values: EIdentifier, EImportIdentifier with namespace alias / inlined constant,
//	           EFunction, ENumber) and printed as `x = {…}` / `x = class {…}`, optionally inside `with (x)`, under an option set;
//	           expected = the bytes between `x = ` and `;`.
//
// (k_printkey_lex.go adds the ops that tie the token view and the parser side of the model to the real lexer / parser.)
type pkNum struct {
	v float64
}

type pkKey struct {
	kind    byte // S N B P M I E F
	units   []uint16
	num     float64
	text    string // B: digits; P M I: name; E F: comment
	mangled bool   // M: the name comes from Options.MangledProps instead of the symbol
}

type pkVal struct {
	kind  byte // - I J F R
	name  string
	ns    string // J: namespace name ("" = no alias)
	alias string
	cnst  int // J: -1 = none
	async bool
	gen   bool
	num   int // R: a number, or -1 and name
}

type pkProp struct {
	kind  byte // f m g s a x d b
	flags int  // 1 computed 2 static 4 wasShorthand 8 preferQuoted
	key   pkKey
	val   pkVal
	init  *pkVal // R only
}

type pkOpts struct {
	ms, mw, mi, ascii, noObjExt, noUE, noTemplate, noInlineScript, inWith bool
}

func (o pkOpts) mask() int {
	m := 0
	for i, b := range []bool{o.ms, o.mw, o.mi, o.ascii, o.noObjExt, o.noUE, o.noTemplate, o.noInlineScript, o.inWith} {
		if b {
			m |= 1 << uint(i)
		}
	}
	return m
}

func (o pkOpts) features() compat.JSFeature {
	var f compat.JSFeature
	if o.noObjExt {
		f |= compat.ObjectExtensions
	}
	if o.noUE {
		f |= compat.UnicodeEscapes
	}
	if o.noTemplate {
		f |= compat.TemplateLiteral
	}
	if o.noInlineScript {
		f |= compat.InlineScript
	}
	return f
}

func pkHexRunes(s string) string { return strlexHexRunes(s) }

func pkWireNum(v float64) string {
	bits := math.Float64bits(v)
	text := "0"
	if !math.IsNaN(v) && !math.IsInf(v, 0) {
		text = strconv.FormatFloat(math.Abs(v), 'g', -1, 64)
	}
	return fmt.Sprintf("%d/%s", bits, identHexBytes(text))
}

func (k pkKey) wire() string {
	switch k.kind {
	case 'S':
		return "S" + identHexUnits(k.units)
	case 'N':
		return "N" + pkWireNum(k.num)
	case 'B', 'P', 'M', 'I':
		return string(k.kind) + pkHexRunes(k.text)
	case 'E':
		return "E" + identHexUnits(k.units) + "." + pkHexRunes(k.text)
	case 'F':
		return "F" + pkWireNum(k.num) + "." + pkHexRunes(k.text)
	}
	panic("pkKey kind")
}

func (v pkVal) rawText() string {
	if v.num >= 0 {
		return strconv.Itoa(v.num)
	}
	return v.name
}

func (v pkVal) wire() string {
	switch v.kind {
	case '-':
		return "-"
	case 'I':
		return "I" + pkHexRunes(v.name)
	case 'J':
		c := "-"
		if v.cnst >= 0 {
			c = strconv.Itoa(v.cnst)
		}
		ns, al := "-", "-"
		if v.ns != "" {
			ns, al = pkHexRunes(v.ns), pkHexRunes(v.alias)
		}
		return "J" + pkHexRunes(v.name) + "." + ns + "." + al + "." + c
	case 'F':
		return "F" + identBit(v.async) + identBit(v.gen)
	case 'R':
		if v.num < 0 {
			return "I" + pkHexRunes(v.name) // an identifier
		}
		return "R" + pkHexRunes(v.rawText())
	}
	panic("pkVal kind")
}

func (p pkProp) wire() string {
	init := "0"
	if p.init != nil {
		init = "1" + pkHexRunes(p.init.rawText())
		if p.init.num < 0 {
			init = "2" + pkHexRunes(p.init.rawText())
		}
	}
	return fmt.Sprintf("%c:%d:%s:%s:%s", p.kind, p.flags, p.key.wire(), p.val.wire(), init)
}

func pkWireProps(ps []pkProp) string {
	if len(ps) == 0 {
		return "-"
	}
	parts := make([]string, len(ps))
	for i, p := range ps {
		parts[i] = p.wire()
	}
	return strings.Join(parts, ";")
}

// ---- the real AST

type pkBuilder struct {
	symbols ast.SymbolMap
	mangled map[ast.Ref]string
	consts  map[ast.Ref]js_ast.ConstValue
}

func newPkBuilder() *pkBuilder {
	b := &pkBuilder{symbols: ast.NewSymbolMap(1), mangled: map[ast.Ref]string{}, consts: map[ast.Ref]js_ast.ConstValue{}}
	b.sym("x", ast.SymbolUnbound)
	return b
}

func (b *pkBuilder) sym(name string, kind ast.SymbolKind) ast.Ref {
	b.symbols.SymbolsForSource[0] = append(b.symbols.SymbolsForSource[0], ast.Symbol{OriginalName: name, Kind: kind, Link: ast.InvalidRef})
	return ast.Ref{SourceIndex: 0, InnerIndex: uint32(len(b.symbols.SymbolsForSource[0]) - 1)}
}

func (b *pkBuilder) key(k pkKey) js_ast.Expr {
	switch k.kind {
	case 'S':
		return js_ast.Expr{Data: &js_ast.EString{Value: append([]uint16{}, k.units...)}}
	case 'N':
		return js_ast.Expr{Data: &js_ast.ENumber{Value: k.num}}
	case 'B':
		return js_ast.Expr{Data: &js_ast.EBigInt{Value: k.text}}
	case 'P':
		return js_ast.Expr{Data: &js_ast.EPrivateIdentifier{Ref: b.sym(k.text, ast.SymbolPrivateField)}}
	case 'M':
		if k.mangled {
			ref := b.sym("original_", ast.SymbolMangledProp)
			b.mangled[ref] = k.text
			return js_ast.Expr{Data: &js_ast.ENameOfSymbol{Ref: ref}}
		}
		return js_ast.Expr{Data: &js_ast.ENameOfSymbol{Ref: b.sym(k.text, ast.SymbolMangledProp)}}
	case 'I':
		return js_ast.Expr{Data: &js_ast.EIdentifier{Ref: b.sym(k.text, ast.SymbolUnbound)}}
	case 'E':
		return js_ast.Expr{Data: &js_ast.EInlinedEnum{Value: js_ast.Expr{Data: &js_ast.EString{Value: append([]uint16{}, k.units...)}}, Comment: k.text}}
	case 'F':
		return js_ast.Expr{Data: &js_ast.EInlinedEnum{Value: js_ast.Expr{Data: &js_ast.ENumber{Value: k.num}}, Comment: k.text}}
	}
	panic("pkKey kind")
}

func (b *pkBuilder) val(v pkVal) js_ast.Expr {
	switch v.kind {
	case '-':
		return js_ast.Expr{}
	case 'I':
		return js_ast.Expr{Data: &js_ast.EIdentifier{Ref: b.sym(v.name, ast.SymbolUnbound)}}
	case 'J':
		// the import item is linked to the symbol it was bound to (FollowSymbols)
		target := b.sym(v.name, ast.SymbolHoisted)
		if v.ns != "" {
			nsRef := b.sym(v.ns, ast.SymbolHoisted)
			b.symbols.Get(target).NamespaceAlias = &ast.NamespaceAlias{NamespaceRef: nsRef, Alias: v.alias}
		}
		if v.cnst >= 0 {
			b.consts[target] = js_ast.ConstValue{Kind: js_ast.ConstValueNumber, Number: float64(v.cnst)}
		}
		item := b.sym("import_item", ast.SymbolImport)
		b.symbols.Get(item).Link = target
		return js_ast.Expr{Data: &js_ast.EImportIdentifier{Ref: item}}
	case 'F':
		return js_ast.Expr{Data: &js_ast.EFunction{Fn: js_ast.Fn{IsAsync: v.async, IsGenerator: v.gen}}}
	case 'R':
		if v.num >= 0 {
			return js_ast.Expr{Data: &js_ast.ENumber{Value: float64(v.num)}}
		}
		return js_ast.Expr{Data: &js_ast.EIdentifier{Ref: b.sym(v.name, ast.SymbolUnbound)}}
	}
	panic("pkVal kind")
}

var pkKinds = map[byte]js_ast.PropertyKind{'f': js_ast.PropertyField, 'm': js_ast.PropertyMethod, 'g': js_ast.PropertyGetter,
	's': js_ast.PropertySetter, 'a': js_ast.PropertyAutoAccessor, 'x': js_ast.PropertySpread, 'd': js_ast.PropertyDeclareOrAbstract,
	'b': js_ast.PropertyClassStaticBlock}

func (b *pkBuilder) prop(p pkProp) js_ast.Property {
	if p.kind == 'b' {
		return js_ast.Property{Kind: js_ast.PropertyClassStaticBlock, ClassStaticBlock: &js_ast.ClassStaticBlock{}}
	}
	out := js_ast.Property{Kind: pkKinds[p.kind], Flags: js_ast.PropertyFlags(p.flags), Key: b.key(p.key), ValueOrNil: b.val(p.val)}
	if p.init != nil {
		out.InitializerOrNil = b.val(*p.init)
	}
	return out
}

// pkRealPrint prints `x = <expr>` (inside `with (x)` when o.inWith) with the real printer and returns the text of <expr>
func pkRealPrint(b *pkBuilder, value js_ast.Expr, o pkOpts) (out string) {
	defer func() {
		if r := recover(); r != nil {
			out = "PANIC"
		}
	}()
	x := ast.Ref{SourceIndex: 0, InnerIndex: 0}
	stmt := js_ast.Stmt{Data: &js_ast.SExpr{Value: js_ast.Expr{Data: &js_ast.EBinary{Op: js_ast.BinOpAssign,
		Left: js_ast.Expr{Data: &js_ast.EIdentifier{Ref: x}}, Right: value}}}}
	prefix, suffix := "x = ", ";\n"
	if o.mw {
		prefix = "x="
	}
	if o.inWith {
		stmt = js_ast.Stmt{Data: &js_ast.SWith{Value: js_ast.Expr{Data: &js_ast.EIdentifier{Ref: x}}, Body: stmt, BodyLoc: logger.Loc{Start: 1}}}
		if o.mw {
			prefix = "with(x)x="
		} else {
			prefix = "with (x)\n  x = "
		}
	}
	tree := js_ast.AST{Parts: []js_ast.Part{{Stmts: []js_ast.Stmt{stmt}}}}
	res := js_printer.Print(tree, b.symbols, renamer.NewNoOpRenamer(b.symbols), js_printer.Options{
		MinifySyntax: o.ms, MinifyWhitespace: o.mw, MinifyIdentifiers: o.mi, ASCIIOnly: o.ascii, UnsupportedFeatures: o.features(),
		MangledProps: b.mangled, ConstValues: b.consts})
	js := string(res.JS)
	if o.mw {
		suffix = ";" // the trailing line break is omitted when minifying
		js = strings.TrimSuffix(js, "\n")
	}
	if !strings.HasPrefix(js, prefix) || !strings.HasSuffix(js, suffix) {
		return "SHAPE " + strconv.Quote(js)
	}
	return identHexBytes(js[len(prefix) : len(js)-len(suffix)])
}

func pkPrintObject(ps []pkProp, single bool, o pkOpts) string {
	b := newPkBuilder()
	props := []js_ast.Property{}
	for _, p := range ps {
		props = append(props, b.prop(p))
	}
	return pkRealPrint(b, js_ast.Expr{Data: &js_ast.EObject{Properties: props, IsSingleLine: single}}, o)
}

func pkPrintClass(ps []pkProp, o pkOpts) string {
	b := newPkBuilder()
	props := []js_ast.Property{}
	for _, p := range ps {
		props = append(props, b.prop(p))
	}
	return pkRealPrint(b, js_ast.Expr{Data: &js_ast.EClass{Class: js_ast.Class{Properties: props}}}, o)
}

var _ = helpers.StringToUTF16
