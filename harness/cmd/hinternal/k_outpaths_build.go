package main

// End-to-end operation of kernel `outpaths`: api.Build on real files. The operation line carries the options
// as given (working directory, outdir, outbase, entry names, out extension, entry points {in,out} with the
// file each resolves to); the expected line is what the real build reports: the paths of OutputFiles, or the
// errors "Two output files share the same path …" / "Refusing to overwrite input file …".
//
// Builds with Write:true (the only way to see the overwrite refusal) use only options whose outputs stay inside
// the project directory; the tree is six levels below the temporary root so that the "../" experiments of the
// Write:false builds could not leave the root even if they were written.

import (
	"fmt"
	"os"
	"path/filepath"
	"sort"
	"strconv"
	"strings"

	"github.com/evanw/esbuild/pkg/api"
	"github.com/evanw/esbuild/verifharness/gen"
)

type opFile struct {
	rel      string // relative to the working directory
	contents string
	copy     bool
}

type opBuilds struct {
	root, cwd string
	files     []opFile
}

// No two files of the tree differ in case only: the scanner keys parsed files by the LOWER-CASED path on every
// platform, so "src/B/x.js" and "src/b/x.js" in one build are one file for it (recorded as a finding, outside
// this kernel).
var opTree = []opFile{
	{"src/a.js", "", false}, {"src/b.js", "", false}, {"src/a.ts", "", false}, {"src/index.js", "", false},
	{"src/lib/index.js", "", false}, {"src/lib/util.js", "", false}, {"src/B/x.js", "", false}, {"src/b/y.js", "", false},
	{"src/_.._/q.js", "", false}, {"src/x.y.z.js", "", false}, {"src/.js", "", false},
	{"other/a.js", "", false}, {"../sib/a.js", "", false}, {"../../up/u.js", "", false}, {"src/we ird/a:b<c.js", "", false},
	{"a.js", "", false}, {"src/lib.js", "", false},
	{"assets/t.txt", "T1", true}, {"assets/u.txt", "U", true}, {"assets2/t.txt", "T1", true}, {"assets3/t.txt", "T3", true},
}

func newOpBuilds() *opBuilds {
	root, err := os.MkdirTemp("", "verif-outpaths-")
	if err != nil {
		panic(err)
	}
	if real, err := filepath.EvalSymlinks(root); err == nil {
		root = real
	}
	b := &opBuilds{root: root, cwd: filepath.Join(root, "d1/d2/d3/d4/d5/proj")}
	for i, f := range opTree {
		if !f.copy {
			f.contents = fmt.Sprintf("console.log(%d)\n", i)
		}
		b.files = append(b.files, f)
	}
	b.restore()
	return b
}

func (b *opBuilds) close() { os.RemoveAll(b.root) }

// restore (re)creates the input files and removes everything else below the working directory
func (b *opBuilds) restore() {
	want := map[string]bool{}
	for _, f := range b.files {
		p := filepath.Join(b.cwd, f.rel)
		want[p] = true
		if cur, err := os.ReadFile(p); err != nil || string(cur) != f.contents {
			os.MkdirAll(filepath.Dir(p), 0755)
			if err := os.WriteFile(p, []byte(f.contents), 0644); err != nil {
				panic(err)
			}
		}
	}
	filepath.Walk(b.root, func(p string, info os.FileInfo, err error) error {
		if err == nil && !info.IsDir() && !want[p] {
			os.Remove(p)
		}
		return nil
	})
}

func opHexSorted(paths []string) string {
	hs := make([]string, len(paths))
	for i, p := range paths {
		hs[i] = opHex(p)
	}
	sort.Strings(hs)
	return strings.Join(hs, " ")
}

func (b *opBuilds) one(r *gen.Rand, e *emitter) {
	write := r.Chance(1, 3)
	// entry points
	n := 1 + r.Intn(4)
	onlyCopy := r.Chance(1, 6)
	usedCopy := false
	var eps []api.EntryPoint
	var wire []string
	seenCopy := map[string]bool{}
	for i := 0; i < n; i++ {
		var f opFile
		for {
			// mixed builds take at most one copied file (then the order of the outputs cannot matter)
			f = b.files[r.Intn(len(b.files))]
			if onlyCopy {
				// a copied file that is an entry point twice gets ONE output (the scanner keeps one meta index per
				// source index): outside the model, so every copied file is used once
				if f.copy && !seenCopy[f.rel] {
					break
				}
				if len(seenCopy) == 4 {
					n = i
					break
				}
				continue
			}
			if !f.copy || (!usedCopy && r.Chance(1, 5)) {
				break
			}
		}
		if n == i {
			break
		}
		if f.copy {
			usedCopy = true
			seenCopy[f.rel] = true
		}
		in := f.rel
		switch r.Intn(6) {
		case 0:
			in = "./" + f.rel
		case 1:
			in = filepath.Join(b.cwd, f.rel)
		case 2:
			in = "other/../" + f.rel
		case 3:
			in = strings.Replace(f.rel, "/", "/./", 1)
		}
		out := ""
		if r.Chance(1, 3) {
			if write {
				out = r.Pick([]string{"x", "sub/x", "x.y", "a", "src/a", "a/b/c", "t", "assets/t"})
			} else {
				out = r.Pick([]string{"x", "sub/x", "../x", "..", ".", "../../y/z", "a/../b", "x.y", filepath.Join(b.cwd, "out/abs"), filepath.Join(b.root, "elsewhere/e"), "_.._/x", "a", "x/", "t"})
			}
			e.stat("build-custom-out")
		}
		eps = append(eps, api.EntryPoint{InputPath: in, OutputPath: out})
		copyBit := "0"
		if f.copy {
			copyBit = "1"
		}
		wire = append(wire, strings.Join([]string{opHex(in), opHex(out), opHex(filepath.Join(b.cwd, f.rel)), copyBit, opHex(f.contents)}, ","))
	}
	outdir := r.Pick([]string{"out", "out", "out/deep", "src", ".", "src/lib"})
	outbase := r.Pick([]string{"", "", "", "src", ".", "src/lib", "other"})
	names := r.Pick([]string{"", "", "[dir]/[name]", "[name]", "x/[name]-y", "[dir]/[name].[ext]", "[ext]/[name]", "[name]/[dir]/z"})
	ext := ""
	if r.Chance(1, 5) {
		ext = r.Pick([]string{".mjs", ".a.b", ".js"})
	}
	if !write {
		if r.Chance(1, 3) {
			outdir = r.Pick([]string{"../out", filepath.Join(b.cwd, "abs-out"), "out/../o2", "../.."})
		}
		if r.Chance(1, 3) {
			outbase = r.Pick([]string{"..", "../..", "src/a.js", filepath.Join(b.root, "unrelated/dir"), "src/b", "src/B", "src/_.._"})
		}
		if r.Chance(1, 3) {
			names = r.Pick([]string{"../[name]", "[dir]/../[name]", "[name]/x", "[name][", "zz[", "a\\[name]", "[dir]/[name]/..", "./[name]", "[dir]//[name]"})
		}
		if r.Chance(1, 8) {
			ext = r.Pick([]string{".x/y", ".x/../../esc", ".x/../esc"})
		}
	}
	opts := api.BuildOptions{AbsWorkingDir: b.cwd, EntryPointsAdvanced: eps, Outdir: outdir, Outbase: outbase, EntryNames: names, Bundle: true,
		Write: write, LogLevel: api.LogLevelSilent, Loader: map[string]api.Loader{".txt": api.LoaderCopy}}
	extJS := ".js"
	if ext != "" {
		opts.OutExtension = map[string]string{".js": ext}
		extJS = ext
	}
	res := api.Build(opts)
	var line string
	if len(res.Errors) == 0 {
		var paths []string
		for _, f := range res.OutputFiles {
			paths = append(paths, f.Path)
			if !strings.HasPrefix(f.Path, filepath.Join(b.cwd, outdir)+"/") {
				e.stat("build-output-outside-outdir")
			}
		}
		line = "OK " + opHexSorted(paths)
		e.stat("build-ok")
		if len(paths) < len(eps) {
			e.stat("build-identical-outputs-merged")
		}
	} else {
		var dup, clob, other []string
		for _, m := range res.Errors {
			const dupMsg = "Two output files share the same path but have different contents: "
			const clobMsg = "Refusing to overwrite input file "
			switch {
			case strings.HasPrefix(m.Text, dupMsg):
				dup = append(dup, filepath.Join(b.cwd, strings.TrimPrefix(m.Text, dupMsg)))
			case strings.HasPrefix(m.Text, clobMsg):
				q := strings.TrimPrefix(m.Text, clobMsg)
				if i := strings.LastIndex(q, "\" ("); i >= 0 {
					q = q[:i+1]
				}
				if p, err := strconv.Unquote(q); err == nil {
					clob = append(clob, filepath.Join(b.cwd, p))
				} else {
					other = append(other, m.Text)
				}
			default:
				other = append(other, m.Text)
			}
		}
		line = "ERR dup=" + opHexSorted(dup) + " clob=" + opHexSorted(clob)
		if len(other) > 0 {
			line += " OTHER=" + strings.Join(other, " / ")
		}
		if len(dup) > 0 {
			e.stat("build-err-duplicate-output")
		}
		if len(clob) > 0 {
			e.stat("build-err-overwrite-input")
		}
	}
	if write {
		e.stat("build-write")
		b.restore()
	}
	if onlyCopy {
		e.stat("build-copy-only")
	}
	wbit := "0"
	if write {
		wbit = "1"
	}
	e.emit(strings.Join(append([]string{"outpaths", "build", wbit, opHex(b.cwd), opHex(outdir), opHex(outbase), opHex(names), opHex(extJS)}, wire...), "\t"), line)
}
