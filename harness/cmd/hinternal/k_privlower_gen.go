package main

import (
	"fmt"
	"strings"

	"github.com/evanw/esbuild/verifharness/gen"
)

// Generator shared by the kernels "privlower" (structure of the lowering) and "privlowersem" (Node traces):
// a program is a table of classes K0, K1, … (a class may be nested in a static public field initializer of the
// class before it), each with public fields, private fields, private methods, private getters / setters (instance
// or static), static public methods t0, t1, … and optionally a constructor; a class may extend `Stamp` (whose
// constructor returns its argument). Bodies are expressions over v0..v3, the parameter `a`, `this`, probe calls
// f0..f2 and the private-name operations get / set / op= / ||= &&= ??= / ++ -- / #x in o / call / tagged template.
// Every program has a wire form (prefix tokens, see Impl/PrivLower.lean parseProg) and a JavaScript text.

type plKind int

const (
	plField plKind = iota
	plMethod
	plGetter // getter only
	plSetter // setter only
	plPair
)

type plName struct {
	n      int
	static bool
	kind   plKind
	// member indices
	idx, idx2 int
}

type plMember struct {
	wire, js string
	// for the AST printer: which function this member is ("n1_fn", "n1_get", "n1_set"), "" if none
	fnName string
}

type plClass struct {
	id      int
	parent  int // -1: top level
	stamp   bool
	names   []plName
	members []plMember
	ctorW   string // "-" or "+ expr"
	ctorJS  string
	nested  *plClass // emitted inside the last static public field
}

type plProg struct {
	classes []*plClass // by id (pre-order)
	tops    []int
	mainW   string
	mainJS  string
}

type plGen struct {
	r     *gen.Rand
	e     *emitter
	site  int
	prog  *plProg
	nextC int
}

type plCtx struct {
	g        *plGen
	chain    []*plClass // innermost first
	hasArg   bool
	hasThis  bool
	rank     int  // only things of higher rank may be invoked
	inClass  bool // private names available
	maxClass int  // classes with a smaller id are defined (for `K<c>` references); -1: none
	static   bool // `this` is the class (static method / static initializer)
}

type plE struct{ w, js string }

func (x plE) atomJS() string {
	// identifiers, `this` and call / member expressions that end in `)` or an identifier are kept; everything else
	// is parenthesised
	return "(" + x.js + ")"
}

func (c *plCtx) lookup(n int) (*plName, *plClass) {
	for _, cl := range c.chain {
		for i := range cl.names {
			if cl.names[i].n == n {
				return &cl.names[i], cl
			}
		}
	}
	return nil, nil
}

func (c *plCtx) visibleNames() []int {
	seen := map[int]bool{}
	out := []int{}
	for _, cl := range c.chain {
		for _, nm := range cl.names {
			if !seen[nm.n] {
				seen[nm.n] = true
				out = append(out, nm.n)
			}
		}
	}
	return out
}

func plRank(cl *plClass, idx int) int { return (99-cl.id)*100 + idx }

// may code of rank c.rank use the getter / setter / method behind the name?
func (c *plCtx) usable(nm *plName, cl *plClass, read, write, call bool) bool {
	switch nm.kind {
	case plField:
		return true
	case plMethod:
		if call {
			return plRank(cl, nm.idx) > c.rank
		}
		return true
	case plGetter:
		if read {
			return plRank(cl, nm.idx) > c.rank
		}
		return true
	case plSetter:
		if write {
			return plRank(cl, nm.idx) > c.rank
		}
		return true
	default:
		ok := true
		if read {
			ok = ok && plRank(cl, nm.idx) > c.rank
		}
		if write {
			ok = ok && plRank(cl, nm.idx2) > c.rank
		}
		return ok
	}
}

func (c *plCtx) leaf() plE {
	r := c.g.r
	switch r.Intn(12) {
	case 0:
		return plE{"u", "void 0"}
	case 1:
		return plE{"nl", "null"}
	case 2:
		n := r.Intn(10)
		return plE{fmt.Sprintf("n%d", n), fmt.Sprint(n)}
	case 3:
		s := r.Pick([]string{"", "a", "bc"})
		return plE{"s:" + s, "\"" + s + "\""}
	case 4:
		if r.Chance(1, 2) {
			return plE{"b1", "true"}
		}
		return plE{"b0", "false"}
	case 5, 6:
		if c.hasArg {
			return plE{"a", "a"}
		}
	case 7, 8:
		if c.hasThis {
			return plE{"t", "this"}
		}
	case 9:
		if c.maxClass >= 0 && r.Chance(1, 2) {
			k := r.Intn(c.maxClass + 1)
			if c.g.prog.classes[k].parent < 0 {
				return plE{fmt.Sprintf("K%d", k), fmt.Sprintf("K%d", k)}
			}
		}
	}
	x := r.Intn(4)
	return plE{fmt.Sprintf("v%d", x), fmt.Sprintf("v%d", x)}
}

// an expression that usually evaluates to an object
func (c *plCtx) objExpr(depth int) plE {
	r := c.g.r
	switch r.Intn(8) {
	case 0, 1:
		if c.hasThis {
			return plE{"t", "this"}
		}
	case 2:
		if c.hasArg {
			return plE{"a", "a"}
		}
	case 3:
		if depth > 0 {
			return c.expr(depth - 1)
		}
	case 4:
		f := r.Intn(3)
		x := c.leaf()
		return plE{fmt.Sprintf("f%d %s", f, x.w), fmt.Sprintf("f%d(%s)", f, x.js)}
	}
	x := r.Intn(4)
	return plE{fmt.Sprintf("v%d", x), fmt.Sprintf("v%d", x)}
}

func (c *plCtx) expr(depth int) plE {
	r := c.g.r
	e := c.g.e
	if depth <= 0 || r.Chance(1, 6) {
		return c.leaf()
	}
	names := []int{}
	if c.inClass {
		names = c.visibleNames()
	}
	k := r.Intn(24)
	if len(names) > 0 && k < 15 {
		n := names[r.Intn(len(names))]
		nm, cl := c.lookup(n)
		kindS := []string{"field", "method", "getter", "setter", "pair"}[nm.kind]
		if nm.static {
			kindS = "static-" + kindS
		}
		o := c.objExpr(depth - 1)
		if r.Chance(4, 5) {
			// a receiver that probably has the member
			switch {
			case cl == c.chain[0] && nm.static == c.static && c.hasThis:
				o = plE{"t", "this"}
			case nm.static && cl.parent < 0 && c.maxClass >= cl.id:
				o = plE{fmt.Sprintf("K%d", cl.id), fmt.Sprintf("K%d", cl.id)}
			case !nm.static && c.hasArg && r.Chance(1, 2):
				o = plE{"a", "a"}
			case !nm.static:
				x := r.Intn(4)
				o = plE{fmt.Sprintf("v%d", x), fmt.Sprintf("v%d", x)}
			}
		}
		// combinations that always throw are kept, but rarer
		alwaysThrows := false
		switch {
		case k <= 2 || k == 12 || k == 13 || k == 14:
			alwaysThrows = nm.kind == plSetter
		case k == 3 || k == 4:
			alwaysThrows = nm.kind == plMethod || nm.kind == plGetter
		}
		if (k == 12 || k == 13 || k == 14) && nm.kind == plField {
			alwaysThrows = true // a field rarely holds a function
		}
		switch {
		case k >= 5 && k <= 10:
			alwaysThrows = nm.kind == plMethod || nm.kind == plGetter || nm.kind == plSetter
		}
		if alwaysThrows && r.Chance(4, 5) {
			return c.leaf()
		}
		switch k {
		case 0, 1, 2:
			if c.usable(nm, cl, true, false, false) {
				e.stat("form:get:" + kindS)
				return plE{fmt.Sprintf("G%d %s", n, o.w), fmt.Sprintf("%s.#n%d", o.atomJS(), n)}
			}
		case 3, 4:
			if c.usable(nm, cl, false, true, false) {
				v := c.expr(depth - 1)
				e.stat("form:set:" + kindS)
				return plE{fmt.Sprintf("S%d %s %s", n, o.w, v.w), fmt.Sprintf("(%s.#n%d = %s)", o.atomJS(), n, v.atomJS())}
			}
		case 5, 6:
			if c.usable(nm, cl, true, true, false) {
				v := c.expr(depth - 1)
				if r.Chance(2, 3) {
					n := r.Intn(10)
					v = plE{fmt.Sprintf("n%d", n), fmt.Sprint(n)}
				}
				i := r.Intn(3)
				e.stat("form:binop:" + kindS)
				return plE{fmt.Sprintf("B%s%d %s %s", []string{"a", "s", "m"}[i], n, o.w, v.w),
					fmt.Sprintf("(%s.#n%d %s= %s)", o.atomJS(), n, []string{"+", "-", "*"}[i], v.atomJS())}
			}
		case 7, 8:
			if c.usable(nm, cl, true, true, false) {
				v := c.expr(depth - 1)
				i := r.Intn(3)
				e.stat("form:logical:" + kindS)
				return plE{fmt.Sprintf("L%s%d %s %s", []string{"o", "a", "n"}[i], n, o.w, v.w),
					fmt.Sprintf("(%s.#n%d %s= %s)", o.atomJS(), n, []string{"||", "&&", "??"}[i], v.atomJS())}
			}
		case 9, 10:
			if c.usable(nm, cl, true, true, false) {
				inc, pre := r.Intn(2), r.Intn(2)
				op := []string{"--", "++"}[inc]
				e.stat("form:update:" + kindS)
				js := fmt.Sprintf("(%s.#n%d%s)", o.atomJS(), n, op)
				if pre == 1 {
					js = fmt.Sprintf("(%s%s.#n%d)", op, o.atomJS(), n)
				}
				return plE{fmt.Sprintf("U%d%d%d %s", inc, pre, n, o.w), js}
			}
		case 11:
			e.stat("form:in:" + kindS)
			return plE{fmt.Sprintf("I%d %s", n, o.w), fmt.Sprintf("(#n%d in %s)", n, o.atomJS())}
		case 12, 13:
			if c.usable(nm, cl, true, false, true) {
				a := c.expr(depth - 1)
				e.stat("form:call:" + kindS)
				return plE{fmt.Sprintf("C%d %s %s", n, o.w, a.w), fmt.Sprintf("%s.#n%d(%s)", o.atomJS(), n, a.js)}
			}
		case 14:
			if c.usable(nm, cl, true, false, true) {
				c.g.site++
				e.stat("form:tag:" + kindS)
				return plE{fmt.Sprintf("T%d:%d %s", n, c.g.site, o.w), fmt.Sprintf("%s.#n%d`s%d`", o.atomJS(), n, c.g.site)}
			}
		}
		return c.leaf()
	}
	switch k {
	case 15, 16:
		f := r.Intn(3)
		a := c.expr(depth - 1)
		return plE{fmt.Sprintf("f%d %s", f, a.w), fmt.Sprintf("f%d(%s)", f, a.js)}
	case 17:
		x := r.Intn(4)
		a := c.expr(depth - 1)
		return plE{fmt.Sprintf("=%d %s", x, a.w), fmt.Sprintf("(v%d = %s)", x, a.atomJS())}
	case 18:
		a, b := c.expr(depth-1), c.expr(depth-1)
		return plE{fmt.Sprintf(", %s %s", a.w, b.w), fmt.Sprintf("(%s, %s)", a.atomJS(), b.atomJS())}
	case 19:
		o := c.objExpr(depth - 1)
		p := r.Intn(4)
		return plE{fmt.Sprintf(".%d %s", p, o.w), fmt.Sprintf("%s.p%d", o.atomJS(), p)}
	case 20, 21:
		// new K(a) of a class of higher rank
		if c.maxClass >= 0 {
			k := r.Intn(c.maxClass + 1)
			cl := c.g.prog.classes[k]
			if cl.parent < 0 && plRank(cl, 90) > c.rank {
				a := c.expr(depth - 1)
				e.stat(fmt.Sprintf("form:new:stamp=%v", cl.stamp))
				return plE{fmt.Sprintf("new K%d %s", k, a.w), fmt.Sprintf("new K%d(%s)", k, a.js)}
			}
		}
	case 22:
		// the nested class through the static field that holds it
		if c.maxClass >= 0 {
			k := r.Intn(c.maxClass + 1)
			cl := c.g.prog.classes[k]
			if cl.parent < 0 && cl.nested != nil && plRank(cl.nested, 90) > c.rank {
				a := c.expr(depth - 1)
				e.stat("form:new:nested-class")
				return plE{fmt.Sprintf("new .3 K%d %s", k, a.w), fmt.Sprintf("new (K%d.p3)(%s)", k, a.js)}
			}
		}
	}
	return c.leaf()
}

func (g *plGen) genClass(parent *plClass, chain []*plClass) *plClass {
	r := g.r
	cl := &plClass{id: g.nextC, parent: -1, stamp: r.Chance(1, 3)}
	if parent != nil {
		cl.parent = parent.id
	}
	g.nextC++
	g.prog.classes = append(g.prog.classes, cl)
	chain = append([]*plClass{cl}, chain...)
	// first decide the names and their member positions, then generate the bodies (so that bodies can use all names)
	type slot struct {
		kind   string // pf vf vm vg vs sm
		static bool
		n      int
	}
	slots := []slot{}
	pool := plPerm(r, 4)
	nNames := 1 + r.Intn(3)
	for i := 0; i < nNames; i++ {
		n := pool[i]
		st := r.Chance(1, 3)
		switch r.Intn(7) {
		case 0, 1, 2:
			cl.names = append(cl.names, plName{n: n, static: st, kind: plField, idx: len(slots)})
			slots = append(slots, slot{"vf", st, n})
		case 3:
			cl.names = append(cl.names, plName{n: n, static: st, kind: plMethod, idx: len(slots)})
			slots = append(slots, slot{"vm", st, n})
		case 4:
			cl.names = append(cl.names, plName{n: n, static: st, kind: plGetter, idx: len(slots)})
			slots = append(slots, slot{"vg", st, n})
		case 5:
			cl.names = append(cl.names, plName{n: n, static: st, kind: plSetter, idx: len(slots)})
			slots = append(slots, slot{"vs", st, n})
		default:
			if r.Chance(1, 2) {
				cl.names = append(cl.names, plName{n: n, static: st, kind: plPair, idx: len(slots), idx2: len(slots) + 1})
				slots = append(slots, slot{"vg", st, n}, slot{"vs", st, n})
			} else {
				cl.names = append(cl.names, plName{n: n, static: st, kind: plPair, idx: len(slots) + 1, idx2: len(slots)})
				slots = append(slots, slot{"vs", st, n}, slot{"vg", st, n})
			}
		}
		if r.Chance(1, 3) {
			slots = append(slots, slot{"pf", r.Chance(1, 3), r.Intn(3)})
		}
	}
	nSM := 1 + r.Intn(2)
	for i := 0; i < nSM; i++ {
		slots = append(slots, slot{"sm", true, i})
	}
	// shuffle, keeping member indices consistent: re-derive idx after the shuffle
	perm := plPerm(r, len(slots))
	shuffled := make([]slot, len(slots))
	for i, p := range perm {
		shuffled[p] = slots[i]
	}
	for i := range cl.names {
		nm := &cl.names[i]
		nm.idx = perm[nm.idx]
		if nm.kind == plPair {
			nm.idx2 = perm[nm.idx2]
		}
	}
	slots = shuffled
	if parent == nil && r.Chance(1, 4) {
		slots = append(slots, slot{"nested", true, 3})
	}
	maxClass := cl.id - 1
	if parent != nil {
		maxClass = parent.id - 1
	}
	b01 := func(b bool) string {
		if b {
			return "1"
		}
		return "0"
	}
	stJS := func(b bool) string {
		if b {
			return "static "
		}
		return ""
	}
	for idx, s := range slots {
		cx := &plCtx{g: g, chain: chain, hasThis: true, inClass: true, maxClass: maxClass, rank: plRank(cl, idx), static: s.static}
		depth := 1 + r.Intn(3)
		switch s.kind {
		case "pf", "vf":
			cx.rank = plRank(cl, 90)
			w, js := "-", ""
			if r.Chance(3, 4) {
				x := cx.expr(depth)
				w, js = "+ "+x.w, " = "+x.js
			}
			if s.kind == "pf" {
				cl.members = append(cl.members, plMember{wire: fmt.Sprintf("pf %s %d %s", b01(s.static), s.n, w), js: fmt.Sprintf("%sp%d%s;", stJS(s.static), s.n, js)})
			} else {
				cl.members = append(cl.members, plMember{wire: fmt.Sprintf("vf %s %d %s", b01(s.static), s.n, w), js: fmt.Sprintf("%s#n%d%s;", stJS(s.static), s.n, js)})
			}
		case "vm":
			cx.hasArg = true
			x := cx.expr(depth)
			cl.members = append(cl.members, plMember{wire: fmt.Sprintf("vm %s %d %s", b01(s.static), s.n, x.w),
				js: fmt.Sprintf("%s#n%d(a) { return %s; }", stJS(s.static), s.n, x.js), fnName: fmt.Sprintf("n%d_fn", s.n)})
		case "vg":
			x := cx.expr(depth)
			cl.members = append(cl.members, plMember{wire: fmt.Sprintf("vg %s %d %s", b01(s.static), s.n, x.w),
				js: fmt.Sprintf("%sget #n%d() { return %s; }", stJS(s.static), s.n, x.js), fnName: fmt.Sprintf("n%d_get", s.n)})
		case "vs":
			cx.hasArg = true
			x := cx.expr(depth)
			cl.members = append(cl.members, plMember{wire: fmt.Sprintf("vs %s %d %s", b01(s.static), s.n, x.w),
				js: fmt.Sprintf("%sset #n%d(a) { (%s); }", stJS(s.static), s.n, x.js), fnName: fmt.Sprintf("n%d_set", s.n)})
		case "sm":
			cx.hasArg = true
			x := cx.expr(depth + 1)
			cl.members = append(cl.members, plMember{wire: fmt.Sprintf("sm %d %s", s.n, x.w),
				js: fmt.Sprintf("static t%d(a) { return %s; }", s.n, x.js)})
		case "nested":
			nc := g.genClass(cl, chain)
			cl.nested = nc
			cl.members = append(cl.members, plMember{wire: fmt.Sprintf("pf 1 3 + CE%d", nc.id), js: "static p3 = " + nc.jsText("") + ";"})
		}
	}
	cl.ctorW = "-"
	if r.Chance(1, 2) {
		cx := &plCtx{g: g, chain: chain, hasThis: true, hasArg: true, inClass: true, maxClass: maxClass, rank: plRank(cl, 90)}
		x := cx.expr(1 + r.Intn(2))
		cl.ctorW = "+ " + x.w
		sup := ""
		if cl.stamp {
			sup = "super(a); "
		}
		cl.ctorJS = fmt.Sprintf("constructor(a) { %s(%s); }", sup, x.js)
	}
	return cl
}

func (cl *plClass) jsText(name string) string {
	var sb strings.Builder
	sb.WriteString("class " + name)
	if cl.stamp {
		sb.WriteString(" extends Stamp")
	}
	sb.WriteString(" {\n")
	if cl.ctorJS != "" {
		sb.WriteString("  " + cl.ctorJS + "\n")
	}
	for _, m := range cl.members {
		sb.WriteString("  " + m.js + "\n")
	}
	sb.WriteString("}")
	return sb.String()
}

func (cl *plClass) wire() string {
	par := "-"
	if cl.parent >= 0 {
		par = fmt.Sprint(cl.parent)
	}
	st := "0"
	if cl.stamp {
		st = "1"
	}
	parts := []string{"C", par, st, cl.ctorW, fmt.Sprint(len(cl.members))}
	for _, m := range cl.members {
		parts = append(parts, m.wire)
	}
	return strings.Join(parts, " ")
}

func genPrivProg(r *gen.Rand, e *emitter) *plProg {
	g := &plGen{r: r, e: e, prog: &plProg{}}
	nTop := 1 + r.Intn(3)
	for i := 0; i < nTop; i++ {
		cl := g.genClass(nil, nil)
		g.prog.tops = append(g.prog.tops, cl.id)
	}
	// main: create instances, then call the static methods
	cx := &plCtx{g: g, maxClass: len(g.prog.classes) - 1, rank: -1}
	parts := []plE{}
	nNew := 4 + r.Intn(2)
	for i := 0; i < nNew; i++ {
		k := g.prog.tops[r.Intn(len(g.prog.tops))]
		a := cx.leaf()
		x := i % 4
		parts = append(parts, plE{fmt.Sprintf("=%d new K%d %s", x, k, a.w), fmt.Sprintf("(v%d = new K%d(%s))", x, k, a.js)})
	}
	for i := 0; i < 1+r.Intn(3); i++ {
		k := g.prog.tops[r.Intn(len(g.prog.tops))]
		a := cx.leaf()
		parts = append(parts, plE{fmt.Sprintf("sc%d K%d %s", r.Intn(2), k, a.w), ""})
		last := &parts[len(parts)-1]
		last.js = fmt.Sprintf("K%d.t%s(%s)", k, strings.Fields(last.w)[0][2:], a.js)
	}
	if r.Chance(1, 3) {
		parts = append(parts, cx.expr(2))
	}
	m := parts[len(parts)-1]
	for i := len(parts) - 2; i >= 0; i-- {
		m = plE{fmt.Sprintf(", %s %s", parts[i].w, m.w), fmt.Sprintf("(%s, %s)", parts[i].js, m.js)}
	}
	g.prog.mainW, g.prog.mainJS = m.w, m.js
	return g.prog
}

func (p *plProg) wire() string {
	parts := []string{fmt.Sprint(len(p.classes))}
	for _, cl := range p.classes {
		parts = append(parts, cl.wire())
	}
	parts = append(parts, "tops", fmt.Sprint(len(p.tops)))
	for _, t := range p.tops {
		parts = append(parts, fmt.Sprint(t))
	}
	parts = append(parts, p.mainW)
	return strings.Join(parts, " ")
}

func (p *plProg) js() string {
	var sb strings.Builder
	for _, t := range p.tops {
		sb.WriteString(p.classes[t].jsText(fmt.Sprintf("K%d", t)) + "\n")
	}
	sb.WriteString("r = " + p.mainJS + ";\n")
	return sb.String()
}
