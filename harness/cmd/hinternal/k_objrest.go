package main

import (
	"fmt"
	"strings"

	"github.com/evanw/esbuild/internal/compat"
	"github.com/evanw/esbuild/internal/config"
	"github.com/evanw/esbuild/internal/helpers"
	"github.com/evanw/esbuild/internal/js_ast"
	"github.com/evanw/esbuild/internal/js_parser"
	"github.com/evanw/esbuild/internal/logger"
	"github.com/evanw/esbuild/verifharness/gen"
)

// kernel "objrest": random statements made of identifiers, primitive literals, probe calls, comma
// expressions, object literals (plain / numeric / computed keys, getters, setters, `__proto__: v`, spreads) and
// destructuring assignments / `var` declarations with object patterns (computed keys, defaults, nested patterns,
// rest elements) are parsed and lowered by the REAL parser with object rest/spread marked unsupported; the
// lowered statement is printed as an S-expression (temporaries renumbered by first appearance) and compared with
// the S-expression of the Lean model's lowering (Impl/Lower3.lean: lowerObjectSpread, lowerObjectRestInDecls,
// lowerAssign, lowerObjectRestHelper, captureKeyForObjectRest). A share of the stream is malformed wire text,
// which the model must reject ("bad-op").

type o3 struct {
	wire string
	js   string
}

var o3names = []string{"a", "b", "c", "d", "__proto__"}
var o3strs = []string{"a", "b", "c", "x1", "__proto__"}

type o3gen struct {
	r *gen.Rand
	e *emitter
	// for the semantic kernel: no `__proto__: v` after a spread etc. is NOT avoided here; only things Node
	// cannot run or the model does not have are avoided
	sem bool
}

func (g *o3gen) leaf() o3 {
	r := g.r
	switch r.Intn(9) {
	case 0:
		return o3{"undef", "undefined"}
	case 1:
		return o3{"null", "null"}
	case 2:
		n := r.Intn(10)
		return o3{fmt.Sprintf("n%d", n), fmt.Sprint(n)}
	case 3:
		s := r.Pick(o3strs)
		if g.sem && s == "__proto__" {
			s = "xy"
		}
		return o3{"S:" + s, "\"" + s + "\""}
	default:
		x := r.Intn(4)
		return o3{fmt.Sprintf("v%d", x), fmt.Sprintf("v%d", x)}
	}
}

// a property name: (wire tokens, js text, kind)
func (g *o3gen) key(depth int, inPattern bool) (string, string, string) {
	r := g.r
	strs, names := o3strs, o3names
	if g.sem {
		// the model assumes that keys are not names of properties of Object.prototype
		strs, names = o3strs[:4], o3names[:4]
	}
	switch r.Intn(10) {
	case 0, 1:
		if g.sem && !inPattern {
			break // array-index keys of literals: not in the model (JavaScript lists them first)
		}
		n := r.Intn(3)
		return fmt.Sprintf("kn:%d", n), fmt.Sprint(n), "numeric"
	case 2:
		s := r.Pick(strs)
		return "kc S:" + s, "[\"" + s + "\"]", "computed-string"
	case 3:
		if g.sem && !inPattern {
			break
		}
		n := r.Intn(3)
		return fmt.Sprintf("kc n%d", n), fmt.Sprintf("[%d]", n), "computed-number"
	case 4:
		x := r.Intn(4)
		return fmt.Sprintf("kc v%d", x), fmt.Sprintf("[v%d]", x), "computed-identifier"
	case 5, 6:
		var k o3
		if g.sem {
			// no object literal as a key (ToPrimitive of a fresh object is not an event)
			k = g.leaf()
			if r.Chance(2, 3) {
				f := r.Intn(3)
				k = o3{fmt.Sprintf("c%d %s", f, k.wire), fmt.Sprintf("f%d(%s)", f, k.js)}
			}
		} else {
			k = g.expr(depth - 1)
		}
		return "kc " + k.wire, "[" + k.js + "]", "computed-other"
	}
	s := r.Pick(names)
	if s == "__proto__" && !inPattern {
		s = "a" // `__proto__: v` is generated separately (wire P)
	}
	return "ks:" + s, s, "static"
}

func (g *o3gen) object(depth int) o3 {
	r := g.r
	n := r.Intn(6)
	wire := []string{"O"}
	js := []string{}
	hasProto := false
	spreads := 0
	// sem mode works around three V8 (Node 20) deviations from ECMA-262 in the SOURCE run: (1) a getter that was
	// defined after a computed key / spread is called twice when a rest element excludes its key through a
	// computed key; (2) in a literal that starts with a spread, accessors with literal names are created after
	// the data properties that follow them; (3) in a literal that starts with a spread, a literal name that occurs
	// twice is listed at its LAST position (`{...o, d: 1, a: 2, d: 3}` has the keys a, d). So: getters only before the
	// first computed key / spread / __proto__, and after a leading spread setters and repeated names get a
	// computed name.
	dynamic := false
	leadingSpread := false
	seen := map[string]bool{}
	for i := 0; i < n; i++ {
		switch r.Intn(12) {
		case 0, 1, 2, 3:
			e := g.expr(depth - 1)
			wire = append(wire, "X "+e.wire)
			js = append(js, "..."+e.js)
			spreads++
			if len(js) == 1 {
				leadingSpread = true
			}
			dynamic = true
		case 4:
			if hasProto {
				continue
			}
			hasProto = true
			v := g.expr(depth - 1)
			wire = append(wire, "P "+v.wire)
			js = append(js, "__proto__: "+v.js)
			if spreads > 0 {
				g.e.stat("literal:proto-after-spread")
			} else {
				g.e.stat("literal:proto-before-spread")
			}
			dynamic = true
		case 5:
			kw, kj, kk := g.key(depth, false)
			if g.sem && (dynamic || kk != "static") {
				continue
			}
			id := r.Intn(4)
			wire = append(wire, fmt.Sprintf("G%d %s", id, kw))
			js = append(js, fmt.Sprintf("get %s() { return W.getter(%d, this); }", kj, id))
			g.e.stat("literal:getter:" + kk)
		case 6:
			kw, kj, kk := g.key(depth, false)
			if g.sem && leadingSpread && kk == "static" {
				name := strings.TrimPrefix(kw, "ks:")
				kw, kj, kk = "kc S:"+name, "[\""+name+"\"]", "computed-string"
			}
			if kk != "static" {
				dynamic = true
			}
			id := r.Intn(4)
			wire = append(wire, fmt.Sprintf("T%d %s", id, kw))
			js = append(js, fmt.Sprintf("set %s(x) { W.setter(%d, this, x); }", kj, id))
			g.e.stat("literal:setter:" + kk)
			if spreads > 0 {
				g.e.stat("literal:accessor-after-spread")
			}
		default:
			kw, kj, kk := g.key(depth, false)
			if g.sem && leadingSpread && kk == "static" {
				name := strings.TrimPrefix(kw, "ks:")
				if seen[name] {
					kw, kj, kk = "kc S:"+name, "[\""+name+"\"]", "computed-string"
				}
				seen[name] = true
			}
			if kk != "static" {
				dynamic = true
			}
			v := g.expr(depth - 1)
			wire = append(wire, "D "+kw+" "+v.wire)
			js = append(js, kj+": "+v.js)
			g.e.stat("literal:data:" + kk)
		}
	}
	wire = append(wire, ".")
	g.e.stat(fmt.Sprintf("literal:spreads:%d", min3(spreads, 3)))
	return o3{strings.Join(wire, " "), "{" + strings.Join(js, ", ") + "}"}
}

func min3(a, b int) int {
	if a < b {
		return a
	}
	return b
}

func (g *o3gen) pattern(depth int, top bool) (o3, bool) {
	r := g.r
	if !top && (depth <= 0 || r.Chance(3, 5)) {
		x := r.Intn(4)
		return o3{fmt.Sprintf("v%d", x), fmt.Sprintf("v%d", x)}, false
	}
	n := r.Intn(4)
	wire := []string{"{"}
	js := []string{}
	hasRest := false
	for i := 0; i < n; i++ {
		kw, kj, kk := g.key(depth, true)
		t, tr := g.pattern(depth-1, false)
		hasRest = hasRest || tr
		g.e.stat("pattern:key:" + kk)
		if tr {
			g.e.stat("pattern:nested-with-rest")
		}
		if r.Chance(1, 3) {
			d := g.expr(depth - 1)
			wire = append(wire, "p "+kw+" "+t.wire+" = "+d.wire)
			js = append(js, kj+": "+t.js+" = "+d.js)
			g.e.stat("pattern:default")
		} else {
			wire = append(wire, "p "+kw+" "+t.wire+" -")
			js = append(js, kj+": "+t.js)
		}
	}
	wire = append(wire, ".")
	if r.Chance(3, 5) {
		x := r.Intn(4)
		wire = append(wire, fmt.Sprintf("r%d", x))
		js = append(js, fmt.Sprintf("...v%d", x))
		hasRest = true
		g.e.stat(fmt.Sprintf("pattern:rest-after-%d-properties", n))
	} else {
		wire = append(wire, "-")
	}
	return o3{strings.Join(wire, " "), "{" + strings.Join(js, ", ") + "}"}, hasRest
}

func (g *o3gen) expr(depth int) o3 {
	r := g.r
	if depth <= 0 || r.Chance(1, 4) {
		return g.leaf()
	}
	switch r.Intn(12) {
	case 0, 1, 2:
		a := g.expr(depth - 1)
		f := r.Intn(3)
		return o3{fmt.Sprintf("c%d %s", f, a.wire), fmt.Sprintf("f%d(%s)", f, a.js)}
	case 3, 4, 5, 6:
		return g.object(depth)
	case 7:
		a := g.expr(depth - 1)
		b := g.expr(depth - 1)
		return o3{"Q " + a.wire + " " + b.wire, "(" + a.js + ", " + b.js + ")"}
	case 8:
		x := r.Intn(4)
		a := g.expr(depth - 1)
		return o3{fmt.Sprintf("A v%d %s", x, a.wire), fmt.Sprintf("(v%d = %s)", x, a.js)}
	default:
		p, hr := g.pattern(depth, true)
		a := g.expr(depth - 1)
		if hr {
			g.e.stat("assign:used-value:with-rest")
			if strings.HasPrefix(a.wire, "v") {
				g.e.stat("assign:used-value:init-identifier")
			} else if !strings.Contains(a.wire, " ") {
				g.e.stat("assign:used-value:init-literal")
			} else {
				g.e.stat("assign:used-value:init-other")
			}
		}
		return o3{"A " + p.wire + " " + a.wire, "(" + p.js + " = " + a.js + ")"}
	}
}

func (g *o3gen) stmt() o3 {
	r := g.r
	depth := 1 + r.Intn(4)
	switch r.Intn(10) {
	case 0, 1, 2:
		// declaration list
		n := 1 + r.Intn(3)
		wire := []string{"L"}
		js := []string{}
		for i := 0; i < n; i++ {
			p, hr := g.pattern(depth, r.Chance(4, 5))
			a := g.expr(depth - 1)
			wire = append(wire, p.wire, a.wire)
			js = append(js, p.js+" = "+a.js)
			if hr {
				g.e.stat("decl:with-rest")
			} else {
				g.e.stat("decl:without-rest")
			}
		}
		wire = append(wire, ";")
		return o3{strings.Join(wire, " "), "var " + strings.Join(js, ", ") + ";"}
	case 3, 4, 5:
		// destructuring assignment as a statement (value unused)
		p, hr := g.pattern(depth, true)
		a := g.expr(depth - 1)
		if hr {
			g.e.stat("assign:statement:with-rest")
		}
		return o3{"E A " + p.wire + " " + a.wire, "(" + p.js + " = " + a.js + ");"}
	default:
		x := g.expr(depth)
		if x.wire == "undef" {
			x = o3{"null", "null"} // `undefined;` is dropped by the parser
		}
		return o3{"E " + x.wire, "(" + x.js + ");"}
	}
}

type sexp3 struct {
	ast   *js_ast.AST
	temps map[string]int
}

func (p *sexp3) temp(name string) int {
	if i, ok := p.temps[name]; ok {
		return i
	}
	i := len(p.temps)
	p.temps[name] = i
	return i
}

// temporaries are called _a … _z, _A … _Z, __, _$, _aa, … (generateTempRef); the runtime helpers of this fragment
// are the only other names that start with an underscore
var o3helpers = map[string]bool{"__spreadValues": true, "__spreadProps": true, "__objRest": true, "__restKey": true}

func isTempName(n string) bool {
	return strings.HasPrefix(n, "_") && !o3helpers[n]
}

func (p *sexp3) ident(n string) string {
	if isTempName(n) {
		return fmt.Sprintf("(tmp %d)", p.temp(n))
	}
	return "(id " + n + ")"
}

func (p *sexp3) key(k js_ast.Expr) string {
	switch x := k.Data.(type) {
	case *js_ast.EString:
		return "(str " + helpers.UTF16ToString(x.Value) + ")"
	case *js_ast.ENumber:
		return fmt.Sprintf("(num %d)", int(x.Value))
	}
	return p.expr(k)
}

// the number N in `W.getter(N, this)` / `W.setter(N, this, x)`
func fnID(fn *js_ast.EFunction) string {
	for _, st := range fn.Fn.Body.Block.Stmts {
		var v js_ast.Expr
		switch s := st.Data.(type) {
		case *js_ast.SReturn:
			v = s.ValueOrNil
		case *js_ast.SExpr:
			v = s.Value
		}
		if call, ok := v.Data.(*js_ast.ECall); ok && len(call.Args) > 0 {
			if n, ok := call.Args[0].Data.(*js_ast.ENumber); ok {
				return fmt.Sprintf("g%d", int(n.Value))
			}
		}
	}
	return "g?"
}

func (p *sexp3) props(props []js_ast.Property, pattern bool) string {
	var sb strings.Builder
	for _, prop := range props {
		switch prop.Kind {
		case js_ast.PropertySpread:
			if pattern {
				sb.WriteString(" (rest " + p.expr(prop.ValueOrNil) + ")")
			} else {
				sb.WriteString(" (spread " + p.expr(prop.ValueOrNil) + ")")
			}
		case js_ast.PropertyGetter:
			k := p.key(prop.Key)
			sb.WriteString(" (get " + k + " " + fnID(prop.ValueOrNil.Data.(*js_ast.EFunction)) + ")")
		case js_ast.PropertySetter:
			k := p.key(prop.Key)
			sb.WriteString(" (set " + k + " " + fnID(prop.ValueOrNil.Data.(*js_ast.EFunction)) + ")")
		case js_ast.PropertyField:
			k := p.key(prop.Key)
			if pattern {
				target, dflt := prop.ValueOrNil, prop.InitializerOrNil
				if bin, ok := target.Data.(*js_ast.EBinary); ok && bin.Op == js_ast.BinOpAssign && dflt.Data == nil {
					target, dflt = bin.Left, bin.Right
				}
				t := p.target(target)
				if dflt.Data != nil {
					sb.WriteString(" (prop " + k + " " + t + " " + p.expr(dflt) + ")")
				} else {
					sb.WriteString(" (prop " + k + " " + t + ")")
				}
			} else {
				sb.WriteString(" (data " + k + " " + p.expr(prop.ValueOrNil) + ")")
			}
		default:
			sb.WriteString(fmt.Sprintf(" (OTHER-PROPERTY %d)", prop.Kind))
		}
	}
	return sb.String()
}

// an assignment target in expression form
func (p *sexp3) target(e js_ast.Expr) string {
	switch x := e.Data.(type) {
	case *js_ast.EIdentifier:
		return p.ident(p.ast.Symbols[x.Ref.InnerIndex].OriginalName)
	case *js_ast.EObject:
		return "(pat" + p.props(x.Properties, true) + ")"
	}
	return fmt.Sprintf("(OTHER-TARGET %T)", e.Data)
}

func (p *sexp3) binding(b js_ast.Binding) string {
	switch x := b.Data.(type) {
	case *js_ast.BIdentifier:
		return p.ident(p.ast.Symbols[x.Ref.InnerIndex].OriginalName)
	case *js_ast.BObject:
		var sb strings.Builder
		for _, prop := range x.Properties {
			if prop.IsSpread {
				sb.WriteString(" (rest " + p.binding(prop.Value) + ")")
				continue
			}
			k := p.key(prop.Key)
			t := p.binding(prop.Value)
			if prop.DefaultValueOrNil.Data != nil {
				sb.WriteString(" (prop " + k + " " + t + " " + p.expr(prop.DefaultValueOrNil) + ")")
			} else {
				sb.WriteString(" (prop " + k + " " + t + ")")
			}
		}
		return "(pat" + sb.String() + ")"
	}
	return fmt.Sprintf("(OTHER-BINDING %T)", b.Data)
}

func (p *sexp3) expr(e js_ast.Expr) string {
	switch x := e.Data.(type) {
	case *js_ast.EIdentifier:
		return p.ident(p.ast.Symbols[x.Ref.InnerIndex].OriginalName)
	case *js_ast.EUndefined:
		return "undef"
	case *js_ast.ENull:
		return "null"
	case *js_ast.ENumber:
		return fmt.Sprintf("(num %d)", int(x.Value))
	case *js_ast.EString:
		return "(str " + helpers.UTF16ToString(x.Value) + ")"
	case *js_ast.EObject:
		return "(obj" + p.props(x.Properties, false) + ")"
	case *js_ast.EArray:
		var sb strings.Builder
		for _, it := range x.Items {
			sb.WriteString(" " + p.expr(it))
		}
		return "(arr" + sb.String() + ")"
	case *js_ast.ECall:
		name := ""
		if id, ok := x.Target.Data.(*js_ast.EIdentifier); ok {
			name = p.ast.Symbols[id.Ref.InnerIndex].OriginalName
		}
		args := []string{}
		if o3helpers[name] {
			// helper calls: arguments left to right
			for _, a := range x.Args {
				args = append(args, p.expr(a))
			}
			return "(" + strings.TrimPrefix(name, "__") + " " + strings.Join(args, " ") + ")"
		}
		t := p.expr(x.Target)
		for _, a := range x.Args {
			args = append(args, p.expr(a))
		}
		return "(call " + t + " " + strings.Join(args, " ") + ")"
	case *js_ast.EBinary:
		switch x.Op {
		case js_ast.BinOpAssign:
			l := p.target(x.Left)
			return "(assign " + l + " " + p.expr(x.Right) + ")"
		case js_ast.BinOpComma:
			l := p.expr(x.Left)
			return "(seq " + l + " " + p.expr(x.Right) + ")"
		case js_ast.BinOpAdd:
			l := p.expr(x.Left)
			return "(add " + l + " " + p.expr(x.Right) + ")"
		}
		l := p.expr(x.Left)
		return fmt.Sprintf("(binop-%d %s %s)", x.Op, l, p.expr(x.Right))
	}
	return fmt.Sprintf("(OTHER %T)", e.Data)
}

func objrestReal(src string) string {
	return guard(func() string {
		log := logger.NewDeferLog(logger.DeferLogAll, nil)
		opts := js_parser.OptionsFromConfig(&config.Options{UnsupportedJSFeatures: compat.ObjectRestSpread})
		tree, ok := js_parser.Parse(log, logger.Source{Contents: src, KeyPath: logger.Path{Text: "/x.js", Namespace: "file"}, PrettyPaths: logger.PrettyPaths{Abs: "/x.js", Rel: "x.js"}}, opts)
		if !ok || log.HasErrors() {
			return "PARSE-ERROR"
		}
		p := &sexp3{ast: &tree, temps: map[string]int{}}
		for _, part := range tree.Parts {
			for _, st := range part.Stmts {
				switch s := st.Data.(type) {
				case *js_ast.SExpr:
					return "(expr " + p.expr(s.Value) + ")"
				case *js_ast.SLocal:
					// skip `var _a, _b;` (the declaration of the temporaries)
					onlyTemps := true
					for _, d := range s.Decls {
						id, ok := d.Binding.Data.(*js_ast.BIdentifier)
						if !ok || d.ValueOrNil.Data != nil || !isTempName(tree.Symbols[id.Ref.InnerIndex].OriginalName) {
							onlyTemps = false
						}
					}
					if onlyTemps {
						continue
					}
					var sb strings.Builder
					for _, d := range s.Decls {
						b := p.binding(d.Binding)
						sb.WriteString(" (" + b + " " + p.expr(d.ValueOrNil) + ")")
					}
					return "(decl" + sb.String() + ")"
				}
			}
		}
		return "NO-STATEMENT"
	})
}

func init() {
	kernels["objrest"] = func(r *gen.Rand, e *emitter, tier string) {
		g := &o3gen{r: r, e: e}
		for !e.full() {
			x := g.stmt()
			if r.Chance(1, 40) {
				toks := strings.Split(x.wire, " ")
				switch r.Intn(3) {
				case 0:
					toks = toks[:len(toks)-1]
					e.stat("malformed:truncated")
				case 1:
					if toks[0] == "L" {
						toks = append(toks, ";")
					} else {
						toks = append(toks, "v1")
					}
					e.stat("malformed:trailing-token")
				default:
					toks[r.Intn(len(toks))] = r.Pick([]string{"Z9", "kq:a", "vx", "G", "n", "rr", "px", "O.", "ks"})
					e.stat("malformed:unknown-token")
				}
				e.emit("objrest\t"+strings.Join(toks, " "), "bad-op")
				continue
			}
			out := objrestReal(x.js + "\n")
			for _, key := range []string{"(spreadValues ", "(spreadProps ", "(objRest ", "(restKey (id", "(restKey (tmp", "(add (num", "(seq ", "(decl ", "(rest "} {
				if strings.Contains(out, key) {
					e.stat("out:" + strings.Trim(key, "( "))
				}
			}
			if strings.Contains(out, "OTHER") || strings.Contains(out, "binop") || strings.Contains(out, "g?") ||
				out == "PARSE-ERROR" || out == "NO-STATEMENT" || out == "PANIC" {
				e.stat("real:unexpected-output")
			}
			e.emit("objrest\t"+x.wire, out)
		}
	}
}
