package main

import (
	"fmt"

	"github.com/evanw/esbuild/internal/helpers"
	"github.com/evanw/esbuild/verifharness/gen"
)

func init() {
	kernels["dataurl"] = func(r *gen.Rand, e *emitter, tier string) {
		alphabet := []string{"%", "%", "4", "a", "F", "g", "#", "\t", "\n", "\r", " ", "\x00", "\x1f", "é", "😀", "\x7f", "x", "&", "\\", "\"", "%2", "%zz", "%41"}
		for !e.full() {
			n := r.Intn(10)
			var b []byte
			for i := 0; i < n; i++ {
				b = append(b, alphabet[r.Intn(len(alphabet))]...)
			}
			switch r.Intn(10) {
			case 0: // invalid UTF-8
				b = append(b, byte(0x80+r.Intn(0x80)))
				if r.Bool() {
					b = append(b, "x "...)
				}
				e.stat("invalid-utf8")
			case 1: // truncated multi-byte sequence
				b = append(b, "😀"[:1+r.Intn(3)]...)
				e.stat("truncated")
			case 2:
				b = append(b, []string{" ", "  ", "\x00 ", " \t", "\t ", "\n"}[r.Intn(6)]...)
				e.stat("trailing")
			default:
				e.stat("plain")
			}
			mime := []string{"text/plain", "application/json;charset=utf-8", ""}[r.Intn(3)]
			e.emit(fmt.Sprintf("dataurl\tpercent\t%s\t%s", hexBytes([]byte(mime)), hexBytes(b)), guard(func() string {
				s, ok := helpers.EncodeStringAsPercentEscapedDataURL(mime, string(b))
				if !ok {
					return "- false"
				}
				return hexBytes([]byte(s)) + " true"
			}))
		}
	}
}
