package main

import (
	"fmt"
	"os"
	"strings"

	"github.com/evanw/esbuild/pkg/api"
	"github.com/evanw/esbuild/verifharness/gen"
)

// kernel "tsclass": TypeScript class expressions (parameter properties, instance / static / declare fields, static
// blocks, setters on the prototype chain, super() at statement level, in comma chains, in return / throw / if
// heads, in arrows, conditions, arguments, parameter defaults and heritage expressions of nested classes, twice,
// or not at all, nested classes everywhere) go through the REAL parser and printer (pkg/api Transform, loader ts,
// tsconfigRaw useDefineForClassFields true / false, target esnext / es2021 / es2015); the printed JavaScript is
// parsed again and turned into the wire form of the model's output language: where the generated statements are,
// which `__super` every call refers to (resolved as JavaScript resolves the names), which fields stay in the
// class body, what follows the class expression.  The model (Impl/TsClass.lean lowerProgram) must print the same.

const tcPreludeTS = "declare const P: any, K: any, M: any, T: any;\n"

func tcTransform(text string, useDefine bool, target api.Target) (string, string) {
	ud := "false"
	if useDefine {
		ud = "true"
	}
	res := api.Transform(tcPreludeTS+text, api.TransformOptions{
		Loader:      api.LoaderTS,
		Target:      target,
		TsconfigRaw: `{"compilerOptions":{"useDefineForClassFields":` + ud + `}}`,
		LogLevel:    api.LogLevelSilent,
	})
	if len(res.Errors) > 0 {
		return "", res.Errors[0].Text
	}
	return string(res.Code), ""
}

func tcPickMode(r *gen.Rand) (useDefine bool, native bool, target api.Target, mode string) {
	useDefine = r.Bool()
	switch r.Intn(4) {
	case 0, 1:
		native, target = true, api.ESNext
	case 2:
		target = api.ES2021
	default:
		target = api.ES2015
	}
	b := func(x bool) string {
		if x {
			return "1"
		}
		return "0"
	}
	return useDefine, native, target, b(useDefine) + b(native)
}

func init() {
	kernels["tsclass"] = func(r *gen.Rand, e *emitter, tier string) {
		g := &tcGen{r: r, stat: e.stat}
		for !e.full() {
			prog := g.program()
			useDefine, _, target, mode := tcPickMode(r)
			text := tcText(prog, true)
			out, errText := tcTransform(text, useDefine, target)
			if errText != "" {
				e.stat("transform-error")
				if e.stats["transform-error"] < 4 {
					fmt.Fprintf(os_Stderr, "tsclass: transform error %s on %s", errText, text)
				}
				continue
			}
			got, why := tcRecognise(out)
			if why != "" {
				got = "UNRECOGNISED " + why
				e.stat("unrecognised-output")
				if os.Getenv("TSCLASS_DEBUG") != "" {
					fmt.Fprintf(os.Stderr, "UNRECOGNISED %s\n%s\n%s\n", why, text, out)
				}
			}
			e.stat("mode:" + mode)
			tcShapeStats(e, got)
			e.emit("tsclass\t"+mode+"\t"+tcWire(prog), got)
		}
	}
}

var os_Stderr = os.Stderr

// which branches of the modelled routines the real output shows
func tcShapeStats(e *emitter, got string) {
	has := func(s string) bool { return strings.Contains(" "+got+" ", s) }
	if strings.Contains(got, " h0 ") || strings.Contains(got, " h1 ") {
		e.stat("out:shim-arrow")
	}
	if strings.Contains(got, "H") {
		e.stat("out:shim-call")
	}
	if has(" S A ") {
		e.stat("out:generated-ctor-super-arguments")
	}
	if strings.Contains(got, " D1") || strings.Contains(got, " D2") || strings.Contains(got, " D3") {
		e.stat("out:publicField-with-value")
	}
	if strings.Contains(got, " d1") || strings.Contains(got, " d2") || strings.Contains(got, " d3") {
		e.stat("out:publicField-undefined")
	}
	if strings.Contains(got, " sa") {
		e.stat("out:static-block-assign")
	}
	if strings.Contains(got, "< D") || strings.Contains(got, "< =") || strings.Contains(got, "< e") || strings.Contains(got, "< d") {
		e.stat("out:static-members-after-class")
	}
	if strings.Contains(got, " =100 a0") || strings.Contains(got, " =101 a1") || strings.Contains(got, " =102 a2") {
		e.stat("out:parameter-property-assign")
	}
	if strings.Contains(got, " D100 a0") || strings.Contains(got, " D101 a1") || strings.Contains(got, " D102 a2") {
		e.stat("out:parameter-property-define")
	}
	if strings.Contains(got, "{ f100") || strings.Contains(got, "{ f101") || strings.Contains(got, "{ f102") {
		e.stat("out:parameter-property-field-declaration")
	}
}
