package main

import (
	"fmt"

	"github.com/evanw/esbuild/internal/css_parser"
	"github.com/evanw/esbuild/verifharness/gen"
)

func init() {
	kernels["csshex"] = func(r *gen.Rand, e *emitter, tier string) {
		for !e.full() {
			switch r.Intn(3) {
			case 0:
				v := uint32(r.U64())
				if r.Bool() { // doubled forms
					c := uint32(r.Intn(65536))
					v = css_parser.VerifExpandHex(c)
					if r.Chance(1, 4) {
						v ^= 1 << uint(r.Intn(32))
					}
				}
				e.stat("compact")
				e.emit(fmt.Sprintf("csshex\tcompact\t%d", v), fmt.Sprint(css_parser.VerifCompactHex(v)))
			case 1:
				c := uint32(r.Intn(65536))
				e.stat("expand")
				e.emit(fmt.Sprintf("csshex\texpand\t%d", c), fmt.Sprint(css_parser.VerifExpandHex(c)))
			default:
				n := r.Intn(10)
				b := make([]byte, n)
				for i := range b {
					b[i] = "0123456789abcdefABCDEFgG xz"[r.Intn(27)]
				}
				e.stat("parse")
				e.emit(fmt.Sprintf("csshex\tparse\t%s", hexBytes(b)), guard(func() string {
					v, ok := css_parser.VerifParseHex(string(b))
					return fmt.Sprintf("%d %v", v, ok)
				}))
			}
		}
	}
}
