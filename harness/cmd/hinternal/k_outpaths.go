package main

// Kernel `outpaths` (property C17): how the PATH of an output file is computed.
//
//	fp    …  esbuild's private copy of path/filepath behind fs.RealFS (Join, Rel, Dir, Base, Ext, IsAbs),
//	         logger.PlatformIndependentPathDirBaseExt, bundler.sanitizeFilePathForVirtualModulePath
//	prel  …  bundler.PathRelativeToOutbase
//	lca   …  bundler.lowestCommonAncestorDirectory
//	tpl   …  api.validatePathTemplate, config.TemplateToString / HasPlaceholder / SubstituteTemplate and the
//	         assembly of finalTemplate / finalRelPath / AbsPath as linker.go does it
//	build …  api.Build on real files: entry points {in,out}, outbase, outdir, entry names, out extension
//	         (k_outpaths_build.go)
//
// All strings travel as hex bytes. Every operation calls the REAL routine.

import (
	"fmt"
	"strings"

	"github.com/evanw/esbuild/internal/bundler"
	"github.com/evanw/esbuild/internal/config"
	"github.com/evanw/esbuild/internal/fs"
	"github.com/evanw/esbuild/internal/graph"
	"github.com/evanw/esbuild/internal/logger"
	"github.com/evanw/esbuild/pkg/api"
	"github.com/evanw/esbuild/verifharness/gen"
)

func opHex(s string) string { return hexBytes([]byte(s)) }

var opSegs = []string{"a", "b", "c", "src", "lib", "index", "index.js", "index.ts", "a.js", "a.ts", "b.css", "x.module.css",
	".", "..", "", "_.._", "...", "a\\..\\..\\x", "x\\y", ".js", ".hidden", "a.b.c", "A", "B", "Src", "a b", "x-y", "node_modules", "pkg", "main.min.js", "..a", "a..", "_"}

const opOddBytes = "ab.\\:*?<>|\" [_-]C\x01\x1f~"

func opSeg(r *gen.Rand, plain bool) string {
	if plain {
		for {
			s := r.Pick(opSegs)
			if s != "" && s != "." && s != ".." {
				return s
			}
		}
	}
	switch r.Intn(12) {
	case 0: // random ASCII, may contain separators of other platforms and characters sanitize drops
		n := 1 + r.Intn(4)
		b := make([]byte, n)
		for i := range b {
			b[i] = opOddBytes[r.Intn(len(opOddBytes))]
		}
		return string(b)
	case 1:
		return r.Pick(opSegs) + r.Pick([]string{".js", ".ts", ".css", ".", "..", ".d.ts"})
	default:
		return r.Pick(opSegs)
	}
}

// opPath: a raw path (needs cleaning: empty, "." and ".." elements, doubled and trailing separators)
func opPath(r *gen.Rand, abs bool) string {
	n := r.Intn(6)
	parts := make([]string, n)
	for i := range parts {
		parts[i] = opSeg(r, false)
	}
	p := strings.Join(parts, "/")
	if abs {
		p = "/" + p
	}
	if r.Chance(1, 8) {
		p += "/"
	}
	if r.Chance(1, 30) {
		p = strings.Replace(p, "/", "//", 1)
	}
	return p
}

// opCleanAbs: an absolute path in normal form
func opCleanAbs(r *gen.Rand, maxDepth int) string {
	n := r.Intn(maxDepth + 1)
	if n == 0 {
		return "/"
	}
	parts := make([]string, n)
	for i := range parts {
		// few distinct names so that common prefixes are frequent
		if r.Chance(3, 4) {
			parts[i] = r.Pick([]string{"a", "b", "src", "lib", "index.js", "a.js", "A", "_.._"})
		} else {
			parts[i] = opSeg(r, true)
		}
	}
	return "/" + strings.Join(parts, "/")
}

func opNonASCII(r *gen.Rand, s string) string {
	b := []byte(s)
	if len(b) == 0 {
		return "\xc3\xa9"
	}
	b[r.Intn(len(b))] = byte(0x80 + r.Intn(0x80))
	return string(b)
}

func opAnyPath(r *gen.Rand) string {
	switch r.Intn(10) {
	case 0:
		return ""
	case 1, 2, 3:
		return opCleanAbs(r, 5)
	case 4, 5:
		return opPath(r, false)
	case 6:
		return opNonASCII(r, opPath(r, r.Bool()))
	default:
		return opPath(r, true)
	}
}

func opShowParts(t []config.PathTemplate) string {
	if len(t) == 0 {
		return "-"
	}
	out := make([]string, len(t))
	for i, p := range t {
		out[i] = fmt.Sprintf("%s:%d", opHex(p.Data), p.Placeholder)
	}
	return strings.Join(out, ";")
}

var opTplPieces = []string{"[dir]", "[name]", "[hash]", "[ext]", "/", "-", ".", "..", "../", "x", "[", "]", "[dir", "[nam]", "[Name]", "\\", "a/b", "[[name]]", "./", "chunks/", "_"}

func opTemplateString(r *gen.Rand) string {
	switch r.Intn(8) {
	case 0:
		return r.Pick([]string{"", "[dir]/[name]", "[name]-[hash]", "[name]", "[dir]/[name]-[hash]", "assets/[name]-[hash]", "[ext]/[name]", "[name]["})
	default:
		n := r.Intn(7)
		var sb strings.Builder
		for i := 0; i < n; i++ {
			sb.WriteString(r.Pick(opTplPieces))
		}
		return sb.String()
	}
}

func opParts(r *gen.Rand) []config.PathTemplate {
	if r.Chance(2, 3) {
		return api.VerifValidatePathTemplate(opTemplateString(r))
	}
	// arbitrary part lists (not in the range of the parser): adjacent literals, empty data
	n := r.Intn(5)
	t := make([]config.PathTemplate, n)
	for i := range t {
		t[i] = config.PathTemplate{Data: r.Pick([]string{"", "/", "a", "./", "x-", "[dir]", "."}), Placeholder: config.PathPlaceholder(r.Intn(5))}
	}
	return t
}

func opOptStr(r *gen.Rand, vals []string) (*string, string) {
	if r.Chance(1, 3) {
		return nil, "~"
	}
	s := r.Pick(vals)
	return &s, opHex(s)
}

func opIsASCII(s string) bool {
	for i := 0; i < len(s); i++ {
		if s[i] >= 0x80 {
			return false
		}
	}
	return true
}

func opRealFS() fs.FS {
	realFS, err := fs.RealFS(fs.RealFSOptions{AbsWorkingDir: "/"})
	if err != nil {
		panic(err)
	}
	return realFS
}

func opFp(r *gen.Rand, e *emitter, fsys fs.FS) {
	switch r.Intn(9) {
	case 0:
		p := opAnyPath(r)
		e.stat("fp-join1")
		// realFS has no Clean of its own: Join of one element is clean(clean(p)) and "" for ""; use Dir/Join instead
		e.emit("outpaths\tfp\tjoin\t"+opHex(p), opHex(fsys.Join(p)))
	case 1:
		n := 2 + r.Intn(2)
		parts := make([]string, n)
		op := "outpaths\tfp\tjoin"
		for i := range parts {
			if r.Chance(1, 6) {
				parts[i] = ""
			} else if i == 0 {
				parts[i] = opAnyPath(r)
			} else {
				parts[i] = opPath(r, r.Chance(1, 5))
			}
			op += "\t" + opHex(parts[i])
		}
		e.stat("fp-join")
		if parts[0] == "" {
			e.stat("fp-join-first-empty")
		}
		e.emit(op, opHex(fsys.Join(parts...)))
	case 2:
		p := opAnyPath(r)
		e.stat("fp-base")
		e.emit("outpaths\tfp\tbase\t"+opHex(p), opHex(fsys.Base(p)))
	case 3:
		p := opAnyPath(r)
		e.stat("fp-dir")
		e.emit("outpaths\tfp\tdir\t"+opHex(p), opHex(fsys.Dir(p)))
	case 4:
		p := opAnyPath(r)
		e.stat("fp-ext")
		e.emit("outpaths\tfp\text\t"+opHex(p), opHex(fsys.Ext(p)))
	case 5:
		var b, t string
		switch r.Intn(4) {
		case 0:
			b, t = opAnyPath(r), opAnyPath(r)
		case 1: // target below or above the base
			b = opCleanAbs(r, 4)
			t = b
			for i := r.Intn(3); i > 0; i-- {
				t = strings.TrimSuffix(t, "/") + "/" + opSeg(r, true)
			}
			if r.Bool() {
				b, t = t, b
			}
		default:
			b, t = opCleanAbs(r, 4), opCleanAbs(r, 5)
		}
		rel, ok := fsys.Rel(b, t)
		res := "err"
		if ok {
			res = "ok " + opHex(rel)
			e.stat("fp-rel-ok")
			if strings.HasPrefix(rel, "..") {
				e.stat("fp-rel-up")
			}
		} else {
			e.stat("fp-rel-err")
		}
		e.emit("outpaths\tfp\trel\t"+opHex(b)+"\t"+opHex(t), res)
	case 6:
		p := opAnyPath(r)
		if r.Chance(1, 4) {
			p = r.Pick([]string{"c:/a/b.js", "C:\\a\\b", "z:/x", "y:/x/", "c:/", "http://x/y/index.js?q", "a\\b\\", "x.module.css", "/a/x.module.css", "/", "//", "a/"})
		}
		d, b, x := logger.PlatformIndependentPathDirBaseExt(p)
		e.stat("fp-pidbe")
		e.emit("outpaths\tfp\tpidbe\t"+opHex(p), opHex(d)+" "+opHex(b)+" "+opHex(x))
	case 7:
		p := opPath(r, r.Bool())
		if r.Chance(1, 3) {
			p = opSeg(r, false) + r.Pick([]string{":", "?x=1", "<>", "\x00", "*", ""}) + opSeg(r, false)
		}
		e.stat("fp-sanitize")
		e.emit("outpaths\tfp\tsanitize\t"+opHex(p), opHex(bundler.VerifSanitizeFilePathForVirtualModulePath(p)))
	case 8:
		p := opAnyPath(r)
		e.stat("fp-isabs")
		e.emit("outpaths\tfp\tisabs\t"+opHex(p), fmt.Sprintf("%v", fsys.IsAbs(p)))
	}
}

func opPrel(r *gen.Rand, e *emitter, fsys fs.FS) {
	outbase := opCleanAbs(r, 4)
	if r.Chance(1, 12) {
		outbase = opAnyPath(r)
	}
	key := opCleanAbs(r, 5)
	switch r.Intn(6) {
	case 0:
		key = opAnyPath(r)
	case 1, 2: // below the outbase
		key = strings.TrimSuffix(outbase, "/")
		for i := 1 + r.Intn(3); i > 0; i-- {
			key += "/" + opSeg(r, true)
		}
	}
	ns := "file"
	custom := ""
	avoid := r.Chance(1, 3)
	switch r.Intn(8) {
	case 0, 1: // custom output path of a user-specified entry point
		custom = r.Pick([]string{"x", "sub/x", "../x", "..", ".", "../../y/z", "a/../b", "x.y", "/abs/out/x", "a\\b", "_.._/x", "x/"})
		if r.Chance(1, 3) {
			custom = opPath(r, r.Chance(1, 4))
		}
		e.stat("prel-custom")
	case 2: // virtual module
		ns = r.Pick([]string{"", "http", "virtual"})
		if r.Bool() {
			key = r.Pick([]string{"http://example.com/a/index.js", "virtual:mod", "a/b/index", "index", "x?y", "<stdin>", "c:/a/index.js", "a/index/", ""})
		}
		if !opIsASCII(key) {
			key = "virtual:" + opCleanAbs(r, 3)
		}
		e.stat("prel-virtual")
	default:
		e.stat("prel-file")
	}
	if avoid {
		e.stat("prel-avoidIndex")
	}
	file := &graph.InputFile{Source: logger.Source{KeyPath: logger.Path{Text: key, Namespace: ns}}}
	opts := &config.Options{AbsOutputBase: outbase}
	nsBit, avoidBit := "0", "0"
	if ns == "file" {
		nsBit = "1"
	}
	if avoid {
		avoidBit = "1"
	}
	res := guard(func() string {
		d, n := bundler.PathRelativeToOutbase(file, opts, fsys, avoid, custom)
		if strings.Contains(d, "_.._") {
			e.stat("prel-dotdot-replaced")
		}
		if d == "/" {
			e.stat("prel-dir-root")
		}
		if n == "." || n == ".." || n == "" {
			e.stat("prel-name-dots-or-empty")
		}
		if strings.Contains(d, "/../") || strings.HasSuffix(d, "/..") {
			e.stat("prel-dir-has-dotdot(backslash)")
		}
		return opHex(d) + " " + opHex(n)
	})
	e.emit(strings.Join([]string{"outpaths", "prel", opHex(key), nsBit, opHex(outbase), avoidBit, opHex(custom)}, "\t"), res)
}

func opLca(r *gen.Rand, e *emitter, fsys fs.FS) {
	n := r.Intn(5)
	if r.Chance(1, 10) {
		n = 0
	}
	paths := make([]string, n)
	auto := make([]bool, n)
	op := "outpaths\tlca"
	common := opCleanAbs(r, 3)
	for i := range paths {
		switch r.Intn(8) {
		case 0:
			paths[i] = opCleanAbs(r, 5)
		case 1: // raw, relative, trailing slashes, backslashes
			paths[i] = opPath(r, r.Bool())
		case 2: // differs in case only / is a character-wise but not segment-wise prefix
			paths[i] = strings.TrimSuffix(common, "/") + r.Pick([]string{"/bc/x.js", "/bd/x.js", "/b/x.js", "/B/x.js", "/bc.js", "/b\\c/x.js", "/b\\d/x.js"})
		default: // below a common directory
			p := strings.TrimSuffix(common, "/")
			for k := 1 + r.Intn(3); k > 0; k-- {
				p += "/" + r.Pick([]string{"a", "b", "ab", "src", "x.js", "index.js", "A"})
			}
			paths[i] = p
		}
		auto[i] = !r.Chance(1, 6)
		bit := "0"
		if auto[i] {
			bit = "1"
		}
		op += "\t" + opHex(paths[i]) + ":" + bit
	}
	res := guard(func() string { return opHex(bundler.VerifLowestCommonAncestorDirectory(fsys, paths, auto)) })
	e.stat(fmt.Sprintf("lca-n%d", n))
	if res == opHex("/") {
		e.stat("lca-root")
	}
	if res == "-" {
		e.stat("lca-empty")
	}
	e.emit(op, res)
}

func opTpl(r *gen.Rand, e *emitter, fsys fs.FS) {
	switch r.Intn(6) {
	case 0, 1:
		s := opTemplateString(r)
		t := api.VerifValidatePathTemplate(s)
		e.stat("tpl-parse")
		if strings.HasSuffix(s, "[") {
			e.stat("tpl-parse-trailing-bracket")
		}
		if config.TemplateToString(t) != "./"+strings.ReplaceAll(s, "\\", "/") {
			e.stat("tpl-parse-lossy")
		}
		e.emit("outpaths\ttpl\tparse\t"+opHex(s), opShowParts(t))
	case 2:
		t := opParts(r)
		e.stat("tpl-str")
		e.emit("outpaths\ttpl\tstr\t"+opShowParts(t), opHex(config.TemplateToString(t)))
	case 3:
		t := opParts(r)
		ph := r.Intn(5)
		e.stat("tpl-has")
		e.emit(fmt.Sprintf("outpaths\ttpl\thas\t%s\t%d", opShowParts(t), ph), fmt.Sprintf("%v", config.HasPlaceholder(t, config.PathPlaceholder(ph))))
	case 4:
		t := opParts(r)
		d, ds := opOptStr(r, []string{"/", "/a/b", "/_.._/x", ""})
		n, ns := opOptStr(r, []string{"a", "index", "..", "", "x.y"})
		h, hs := opOptStr(r, []string{"ABCD1234", ""})
		x, xs := opOptStr(r, []string{"js", "css", ""})
		res := config.SubstituteTemplate(t, config.PathPlaceholders{Dir: d, Name: n, Hash: h, Ext: x})
		e.stat("tpl-sub")
		if len(res) < len(t) {
			e.stat("tpl-sub-merged")
		}
		e.emit(strings.Join([]string{"outpaths", "tpl", "sub", opShowParts(t), ds, ns, hs, xs}, "\t"), opShowParts(res))
	case 5:
		// the linker's assembly: computeChunks (finalTemplate) + generateChunksInParallel (finalRelPath, AbsPath)
		t := opParts(r)
		outdir := opCleanAbs(r, 3)
		if r.Chance(1, 10) {
			outdir = opAnyPath(r)
		}
		dir := r.Pick([]string{"/", "/a", "/a/b", "/_.._/a", "/_.._/_.._", "/..."})
		name := r.Pick([]string{"a", "index", "..", ".", "", "x.y", "chunk", "..."})
		ext := r.Pick([]string{".js", ".css", ".mjs", ".min.js", "", ".", ".x/../../y", ".a/b"})
		hash := r.Pick([]string{"ABCD1234", "Z2Y3X4W5"})
		template := append(append(make([]config.PathTemplate, 0, len(t)+1), t...), config.PathTemplate{Data: ext})
		templateExt := strings.TrimPrefix(ext, ".")
		ft := config.SubstituteTemplate(template, config.PathPlaceholders{Dir: &dir, Name: &name, Ext: &templateExt})
		var hashSub *string
		if config.HasPlaceholder(ft, config.HashPlaceholder) {
			hashSub = &hash
			e.stat("tpl-final-hash")
		}
		rel := config.TemplateToString(config.SubstituteTemplate(ft, config.PathPlaceholders{Hash: hashSub}))
		abs := fsys.Join(outdir, rel)
		e.stat("tpl-final")
		if fsys.IsAbs(outdir) && !strings.HasPrefix(abs+"/", strings.TrimSuffix(fsys.Join(outdir), "/")+"/") {
			e.stat("tpl-final-escapes-outdir")
		}
		e.emit(strings.Join([]string{"outpaths", "tpl", "final", opHex(outdir), opShowParts(t), opHex(dir), opHex(name), opHex(ext), opHex(hash)}, "\t"),
			opShowParts(ft)+" "+opHex(rel)+" "+opHex(abs))
	}
}

func opMalformed(r *gen.Rand, e *emitter) {
	e.stat("malformed")
	e.emit(r.Pick([]string{"outpaths", "outpaths\tfp", "outpaths\tfp\tjoin\tzz", "outpaths\tprel\t-\t2\t-\t0\t-", "outpaths\ttpl\tstr\t61:9",
		"outpaths\tlca\t2f61", "outpaths\tnope\t-", "outpaths\ttpl\tsub\t-\t~\t~", "outpaths\tfp\tsanitize\tc3a9", "outpaths\tlca\t2fc3a9:1"}), "bad-op")
}

func init() {
	kernels["outpaths"] = func(r *gen.Rand, e *emitter, tier string) {
		fsys := opRealFS()
		var b *opBuilds
		defer func() {
			if b != nil {
				b.close()
			}
		}()
		for !e.full() {
			switch k := r.Intn(100); {
			case k < 30:
				opFp(r, e, fsys)
			case k < 55:
				opPrel(r, e, fsys)
			case k < 67:
				opLca(r, e, fsys)
			case k < 92:
				opTpl(r, e, fsys)
			case k < 93:
				opMalformed(r, e)
			default:
				if b == nil {
					b = newOpBuilds()
				}
				b.one(r, e)
			}
		}
	}
}
