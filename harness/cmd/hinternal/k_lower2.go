package main

import (
	"fmt"
	"strings"

	"github.com/evanw/esbuild/internal/compat"
	"github.com/evanw/esbuild/internal/config"
	"github.com/evanw/esbuild/internal/helpers"
	"github.com/evanw/esbuild/internal/js_ast"
	"github.com/evanw/esbuild/internal/js_parser"
	"github.com/evanw/esbuild/internal/logger"
	"github.com/evanw/esbuild/verifharness/gen"
)

// kernel "lower2": random expressions over identifiers, literals (numbers, strings, BigInt), probe calls,
// property reads `o.p` / `o?.p` / `o[k]`, parentheses, `??`, untagged template literals with 0..4 substitutions
// and the assignments `t ||= e`, `t &&= e`, `t ??= e`, `t **= e` with t an identifier, `o.p` or `o[k]` are parsed
// and lowered by the REAL parser with optional chaining, nullish coalescing, logical assignment, the exponent
// operator and template literals all marked unsupported; the lowered AST is printed as an S-expression
// (temporaries renumbered by first appearance) and compared with the S-expression of the Lean model's lowering
// (Impl/Lower2.lean). A share of the stream is malformed wire text, which the model must reject ("bad-op").

type l2expr struct {
	wire string // prefix form for the model
	js   string
	// precedence class of the outermost operator: 0 primary/member/call/template, 1 nullish, 2 unary (void 0), 3 assignment
	prec int
	// the expression is a member chain with an open `?.` (not valid as the base of an assignment target, and
	// a property read continues the chain)
	chain bool
	// a primitive literal, possibly parenthesised: esbuild folds `lit ?? x`, `null?.p` at compile time
	lit     bool
	nullish bool
	numeric bool // needs parentheses before `.p`
	// the expression is a property access, possibly in parentheses: calling it is a method call (`this` = base)
	member bool
	// known not to be null / undefined at compile time (`delete …`): esbuild folds `x ?? y`
	notNullish bool
}

// tagged-template sites are numbered per generated case
var l2site = 0

var l2strings = []string{"", "", "a", "bc", "x1", "q"}
var l2ops = []struct{ wire, js string }{{"o", "||="}, {"a", "&&="}, {"n", "??="}, {"p", "**="}}

func l2paren(x l2expr) l2expr {
	return l2expr{wire: "paren " + x.wire, js: "(" + x.js + ")", prec: 0, lit: x.lit, nullish: x.nullish, member: x.member, notNullish: x.notNullish}
}

// something that may be followed by `.p`, `?.p`, `[k]`
func l2base(x l2expr, forAssign bool) l2expr {
	if x.prec > 0 || x.numeric || (forAssign && x.chain) {
		return l2paren(x)
	}
	return x
}

// how captureValueWithPossibleSideEffects will treat the expression: identifiers and primitive literals are
// written twice, everything else goes through a temporary
func l2kind(x l2expr) string {
	w := x.wire
	for strings.HasPrefix(w, "paren ") {
		w = w[6:]
	}
	if x.lit {
		return "literal"
	}
	if w == "this" {
		return "this"
	}
	if strings.HasPrefix(w, "v") && !strings.Contains(w, " ") {
		return "identifier"
	}
	return "temporary"
}

func genL2Leaf(r *gen.Rand, e *emitter) l2expr {
	switch r.Intn(11) {
	case 10:
		return l2expr{wire: "this", js: "this"}
	case 0:
		return l2expr{wire: "undef", js: "void 0", prec: 2, lit: true, nullish: true}
	case 1:
		return l2expr{wire: "null", js: "null", lit: true, nullish: true}
	case 2:
		n := r.Intn(10)
		return l2expr{wire: fmt.Sprintf("n%d", n), js: fmt.Sprint(n), lit: true, numeric: true}
	case 3:
		s := r.Pick(l2strings)
		return l2expr{wire: "S:" + s, js: "\"" + s + "\"", lit: true}
	case 4:
		if r.Chance(1, 2) && !l2noBig {
			n := r.Intn(10)
			return l2expr{wire: fmt.Sprintf("B%d", n), js: fmt.Sprintf("%dn", n), lit: true, numeric: true}
		}
		s := r.Pick(l2strings)
		e.stat("template:0-substitutions")
		return l2expr{wire: "H:" + s, js: "`" + s + "`", lit: true}
	default:
		x := r.Intn(4)
		return l2expr{wire: fmt.Sprintf("v%d", x), js: fmt.Sprintf("v%d", x)}
	}
}

func genL2(r *gen.Rand, e *emitter, depth int) l2expr {
	if depth <= 0 || r.Chance(1, 5) {
		return genL2Leaf(r, e)
	}
	switch r.Intn(32) {
	case 20, 21:
		// o?.[k]
		o := genL2(r, e, depth-1)
		if o.nullish {
			return o
		}
		o = l2base(o, false)
		k := genL2(r, e, depth-1)
		e.stat("capture:optional-index-base:" + l2kind(o))
		return l2expr{wire: fmt.Sprintf("J %s %s", o.wire, k.wire), js: fmt.Sprintf("%s?.[%s]", o.js, k.js), chain: true, member: true}
	case 22, 23:
		return genL2ValueCall(r, e, depth)
	case 24, 25, 26, 27, 28:
		return genL2MemberCall(r, e, depth)
	case 29, 30:
		// delete o.p / o?.p / o[k] / o?.[k]
		o := genL2(r, e, depth-1)
		if o.nullish {
			return o
		}
		o = l2base(o, false)
		optLink := r.Chance(1, 2)
		lw, ljs, kw := genL2Link(r, e, depth, optLink)
		lc := "d"
		if optLink {
			lc = "q"
		}
		e.stat(fmt.Sprintf("delete:member:opt=%v:chain=%v", optLink, o.chain))
		return l2expr{wire: fmt.Sprintf("D%s%s %s%s", lc, lw, o.wire, kw), js: "delete " + o.js + ljs, prec: 2, notNullish: true}
	case 31:
		// delete of a call
		a := genL2(r, e, depth-1)
		if a.member || a.lit || strings.HasPrefix(a.wire, "paren ") || !(strings.HasPrefix(a.wire, "C") || strings.HasPrefix(a.wire, "M") || strings.HasPrefix(a.wire, "c")) {
			return a
		}
		e.stat(fmt.Sprintf("delete:value:chain=%v", a.chain))
		return l2expr{wire: "DV " + a.wire, js: "delete " + a.js, prec: 2, notNullish: true}
	case 0, 1:
		a := genL2(r, e, depth-1)
		f := r.Intn(3)
		return l2expr{wire: fmt.Sprintf("c%d %s", f, a.wire), js: fmt.Sprintf("f%d(%s)", f, a.js)}
	case 2:
		o := genL2(r, e, depth-1)
		if o.nullish {
			return o
		}
		o = l2base(o, false)
		p := r.Intn(4)
		return l2expr{wire: fmt.Sprintf("d%d %s", p, o.wire), js: fmt.Sprintf("%s.p%d", o.js, p), chain: o.chain, member: true}
	case 3, 4:
		o := genL2(r, e, depth-1)
		if o.nullish {
			return o
		}
		o = l2base(o, false)
		p := r.Intn(4)
		e.stat("capture:optional-chain-base:" + l2kind(o))
		return l2expr{wire: fmt.Sprintf("o%d %s", p, o.wire), js: fmt.Sprintf("%s?.p%d", o.js, p), chain: true, member: true}
	case 5, 6:
		o := genL2(r, e, depth-1)
		if o.nullish {
			return o
		}
		o = l2base(o, false)
		k := genL2(r, e, depth-1)
		if o.chain {
			e.stat("index-inside-optional-chain")
		}
		return l2expr{wire: fmt.Sprintf("I %s %s", o.wire, k.wire), js: fmt.Sprintf("%s[%s]", o.js, k.js), chain: o.chain, member: true}
	case 7:
		a := genL2(r, e, depth-1)
		if a.prec == 2 {
			return a
		}
		return l2paren(a)
	case 8, 9:
		a := genL2(r, e, depth-1)
		b := genL2(r, e, depth-1)
		if a.lit || a.notNullish {
			return b // `literal ?? x` is folded at compile time
		}
		if a.prec >= 2 {
			a = l2paren(a)
		}
		if b.prec >= 1 {
			b = l2paren(b)
		}
		e.stat("capture:nullish-left:" + l2kind(a))
		return l2expr{wire: fmt.Sprintf("nullish %s %s", a.wire, b.wire), js: fmt.Sprintf("%s ?? %s", a.js, b.js), prec: 1}
	case 10, 11, 12:
		// template literal with 1..4 substitutions
		n := 1 + r.Intn(4)
		head := r.Pick(l2strings)
		wire := "H:" + head
		js := "`" + head
		nested := false
		for i := 0; i < n; i++ {
			sub := genL2(r, e, depth-1)
			tail := r.Pick(l2strings)
			if strings.Contains(sub.js, "`") {
				nested = true
			}
			if tail == "" {
				e.stat("template:empty-tail")
			} else {
				e.stat("template:non-empty-tail")
			}
			wire = "T:" + tail + " " + wire + " " + sub.wire
			js += "${" + sub.js + "}" + tail
		}
		js += "`"
		e.stat(fmt.Sprintf("template:%d-substitutions", n))
		if head == "" {
			e.stat("template:empty-head")
		}
		if nested {
			e.stat("template:nested")
		}
		return l2expr{wire: wire, js: js}
	default:
		op := l2ops[r.Intn(len(l2ops))]
		rhs := genL2(r, e, depth-1)
		switch r.Intn(3) {
		case 0:
			x := r.Intn(4)
			e.stat("assign:" + op.js + ":identifier")
			return l2expr{wire: fmt.Sprintf("A%sv%d %s", op.wire, x, rhs.wire), js: fmt.Sprintf("v%d %s %s", x, op.js, rhs.js), prec: 3}
		case 1:
			o := genL2(r, e, depth-1)
			if o.nullish {
				return o
			}
			o = l2base(o, true)
			p := r.Intn(4)
			e.stat("assign:" + op.js + ":dot")
			e.stat("capture:assign-dot-base:" + l2kind(o))
			return l2expr{wire: fmt.Sprintf("A%sd%d %s %s", op.wire, p, o.wire, rhs.wire), js: fmt.Sprintf("%s.p%d %s %s", o.js, p, op.js, rhs.js), prec: 3}
		default:
			o := genL2(r, e, depth-1)
			if o.nullish {
				return o
			}
			o = l2base(o, true)
			k := genL2(r, e, depth-1)
			e.stat("assign:" + op.js + ":index")
			e.stat("capture:assign-index-base:" + l2kind(o))
			e.stat("capture:assign-index-key:" + l2kind(k))
			return l2expr{wire: fmt.Sprintf("A%si %s %s %s", op.wire, o.wire, k.wire, rhs.wire), js: fmt.Sprintf("%s[%s] %s %s", o.js, k.js, op.js, rhs.js), prec: 3}
		}
	}
}

// a property link: wire code, JavaScript text, and the wire text of the key (" K" for an index link)
func genL2Link(r *gen.Rand, e *emitter, depth int, optLink bool) (string, string, string) {
	if r.Chance(1, 2) {
		p := r.Intn(4)
		if optLink {
			return fmt.Sprintf("d%d", p), fmt.Sprintf("?.p%d", p), ""
		}
		return fmt.Sprintf("d%d", p), fmt.Sprintf(".p%d", p), ""
	}
	k := genL2(r, e, depth-1)
	if optLink {
		return "i", "?.[" + k.js + "]", " " + k.wire
	}
	return "i", "[" + k.js + "]", " " + k.wire
}

// 0..2 arguments: wire text (each preceded by a space) and JavaScript texts
func genL2Args(r *gen.Rand, e *emitter, depth int) (int, string, []string) {
	n := r.Intn(3)
	wire := ""
	js := []string{}
	for i := 0; i < n; i++ {
		a := genL2(r, e, depth-1)
		if a.prec >= 3 {
			// an assignment is fine as an argument, but keep templates readable
			a = l2paren(a)
		}
		wire += " " + a.wire
		js = append(js, a.js)
	}
	return n, wire, js
}

// the text of a tagged template with the given substitutions; returns the wire spec ":site,s0,s1…" and the JavaScript
func genL2Tpl(r *gen.Rand, subs []string) (string, string) {
	site := l2site
	l2site++
	strs := []string{fmt.Sprintf("t%d", site)}
	js := "`" + strs[0]
	for _, sub := range subs {
		tail := r.Pick(l2strings)
		strs = append(strs, tail)
		js += "${" + sub + "}" + tail
	}
	return fmt.Sprintf(":%d,%s", site, strings.Join(strs, ",")), js + "`"
}

// f(a, b) / f?.(a, b) / f`…` with a callee that is not a property access
func genL2ValueCall(r *gen.Rand, e *emitter, depth int) l2expr {
	f := genL2(r, e, depth-1)
	if f.member || f.lit || f.nullish {
		return f
	}
	if f.prec > 0 {
		f = l2paren(f)
	}
	n, aw, ajs := genL2Args(r, e, depth)
	switch r.Intn(4) {
	case 0:
		e.stat(fmt.Sprintf("call:value:optional:args=%d", n))
		e.stat("capture:optional-call-target:" + l2kind(f))
		return l2expr{wire: fmt.Sprintf("Co%d %s%s", n, f.wire, aw), js: f.js + "?.(" + strings.Join(ajs, ", ") + ")", chain: true}
	case 1:
		if f.chain {
			f = l2paren(f)
		}
		spec, tjs := genL2Tpl(r, ajs)
		e.stat(fmt.Sprintf("tag:value:subs=%d", n))
		return l2expr{wire: fmt.Sprintf("Cn%d%s %s%s", n, spec, f.wire, aw), js: f.js + tjs}
	default:
		e.stat(fmt.Sprintf("call:value:plain:args=%d:chain=%v", n, f.chain))
		return l2expr{wire: fmt.Sprintf("Cn%d %s%s", n, f.wire, aw), js: f.js + "(" + strings.Join(ajs, ", ") + ")", chain: f.chain}
	}
}

// calls and tagged templates whose callee is a property access: o.p(a) o?.p(a) o[k](a) o?.[k](a), the same with
// `?.(`, and the parenthesised forms (o?.p)(a) (o?.p.q)`x` whose parentheses end the chain
func genL2MemberCall(r *gen.Rand, e *emitter, depth int) l2expr {
	o := genL2(r, e, depth-1)
	if o.nullish {
		return o
	}
	o = l2base(o, false)
	optLink := r.Chance(1, 2)
	lw, ljs, kw := genL2Link(r, e, depth, optLink)
	lc := "d"
	if optLink {
		lc = "q"
	}
	n, aw, ajs := genL2Args(r, e, depth)
	inChain := o.chain || optLink
	kind := l2kind(o)
	links := 1 + strings.Count(o.js, "?.")
	mode := r.Intn(5)
	tag := false
	switch mode {
	case 0, 1: // plain call, continues the chain
		e.stat(fmt.Sprintf("call:member:plain:opt-link=%v:link=%s:args=%d", optLink, lw[:1], n))
		return l2expr{wire: fmt.Sprintf("Mp%s%d%s %s%s%s", lc, n, lw, o.wire, kw, aw), js: o.js + ljs + "(" + strings.Join(ajs, ", ") + ")", chain: inChain}
	case 2: // optional call
		e.stat(fmt.Sprintf("call:member:optional:opt-link=%v:link=%s:base-in-chain=%v:this=%s", optLink, lw[:1], o.chain, kind))
		return l2expr{wire: fmt.Sprintf("Mo%s%d%s %s%s%s", lc, n, lw, o.wire, kw, aw), js: o.js + ljs + "?.(" + strings.Join(ajs, ", ") + ")", chain: true}
	case 3:
		tag = true
	}
	if !inChain {
		// without an optional link inside, the parentheses change nothing: (o.p)(a) is o.p(a)
		if tag {
			spec, tjs := genL2Tpl(r, ajs)
			e.stat(fmt.Sprintf("tag:member:plain:link=%s:subs=%d", lw[:1], n))
			return l2expr{wire: fmt.Sprintf("Mp%s%d%s%s %s%s%s", lc, n, lw, spec, o.wire, kw, aw), js: o.js + ljs + tjs}
		}
		e.stat("call:member:parenthesised-without-chain")
		return l2expr{wire: fmt.Sprintf("Mp%s%d%s %s%s%s", lc, n, lw, o.wire, kw, aw), js: "(" + o.js + ljs + ")(" + strings.Join(ajs, ", ") + ")"}
	}
	if links > 3 {
		links = 3
	}
	if tag {
		spec, tjs := genL2Tpl(r, ajs)
		e.stat(fmt.Sprintf("tag:member:parenthesised:opt-link=%v:link=%s:links=%d:this=%s", optLink, lw[:1], links, kind))
		return l2expr{wire: fmt.Sprintf("Mr%s%d%s%s %s%s%s", lc, n, lw, spec, o.wire, kw, aw), js: "(" + o.js + ljs + ")" + tjs}
	}
	e.stat(fmt.Sprintf("call:member:parenthesised:opt-link=%v:link=%s:links=%d:this=%s", optLink, lw[:1], links, kind))
	return l2expr{wire: fmt.Sprintf("Mr%s%d%s %s%s%s", lc, n, lw, o.wire, kw, aw), js: "(" + o.js + ljs + ")(" + strings.Join(ajs, ", ") + ")"}
}

type sexp2 struct {
	ast   *js_ast.AST
	temps map[uint32]int
}

func (p *sexp2) name(e *js_ast.EIdentifier) string {
	return p.ast.Symbols[e.Ref.InnerIndex].OriginalName
}

// temporaries are told apart by their symbol (a function-level `_a` and a top-level `_a` are different)
func (p *sexp2) temp(e js_ast.Expr) int {
	ref := e.Data.(*js_ast.EIdentifier).Ref.InnerIndex
	if i, ok := p.temps[ref]; ok {
		return i
	}
	i := len(p.temps)
	p.temps[ref] = i
	return i
}

func (p *sexp2) isTemp(e js_ast.Expr) (string, bool) {
	if id, ok := e.Data.(*js_ast.EIdentifier); ok {
		n := p.name(id)
		if strings.HasPrefix(n, "_") && !strings.HasPrefix(n, "__") {
			return n, true
		}
	}
	return "", false
}

func (p *sexp2) expr(e js_ast.Expr) string {
	switch x := e.Data.(type) {
	case *js_ast.EIdentifier:
		if _, ok := p.isTemp(e); ok {
			return fmt.Sprintf("(tmp %d)", p.temp(e))
		}
		return "(id " + p.name(x) + ")"
	case *js_ast.EThis:
		return "this"
	case *js_ast.EBoolean:
		if x.Value {
			return "true"
		}
		return "false"
	case *js_ast.EArray:
		items := []string{}
		for _, it := range x.Items {
			items = append(items, p.expr(it))
		}
		return "(array " + strings.Join(items, " ") + ")"
	case *js_ast.EUndefined:
		return "undef"
	case *js_ast.ENull:
		return "null"
	case *js_ast.ENumber:
		return fmt.Sprintf("(num %d)", int(x.Value))
	case *js_ast.EBigInt:
		return "(big " + x.Value + ")"
	case *js_ast.EString:
		return "(str " + helpers.UTF16ToString(x.Value) + ")"
	case *js_ast.ETemplate:
		return "(UNLOWERED-TEMPLATE)"
	case *js_ast.ECall:
		if x.OptionalChain != js_ast.OptionalChainNone {
			return "(UNLOWERED-CALL)"
		}
		// strictly left to right, so that temporaries are numbered in source order
		isPow := false
		if id, ok := x.Target.Data.(*js_ast.EIdentifier); ok && p.name(id) == "__pow" {
			isPow = true
		}
		target := ""
		if !isPow {
			target = p.expr(x.Target)
		}
		args := []string{}
		for _, a := range x.Args {
			args = append(args, p.expr(a))
		}
		if isPow {
			return "(pow " + strings.Join(args, " ") + ")"
		}
		if len(args) == 0 {
			return "(call " + target + ")"
		}
		return "(call " + target + " " + strings.Join(args, " ") + ")"
	case *js_ast.EDot:
		if x.OptionalChain != js_ast.OptionalChainNone {
			return "(UNLOWERED-DOT)"
		}
		return "(dot " + p.expr(x.Target) + " " + x.Name + ")"
	case *js_ast.EIndex:
		if x.OptionalChain != js_ast.OptionalChainNone {
			return "(UNLOWERED-INDEX)"
		}
		return "(idx " + p.expr(x.Target) + " " + p.expr(x.Index) + ")"
	case *js_ast.EBinary:
		switch x.Op {
		case js_ast.BinOpAssign:
			if _, ok := p.isTemp(x.Left); ok {
				i := p.temp(x.Left)
				return fmt.Sprintf("(set %d %s)", i, p.expr(x.Right))
			}
			l := p.expr(x.Left)
			return "(assign " + l + " " + p.expr(x.Right) + ")"
		case js_ast.BinOpLogicalOr:
			l := p.expr(x.Left)
			return "(or " + l + " " + p.expr(x.Right) + ")"
		case js_ast.BinOpLogicalAnd:
			l := p.expr(x.Left)
			return "(and " + l + " " + p.expr(x.Right) + ")"
		case js_ast.BinOpLooseEq:
			if _, ok := x.Right.Data.(*js_ast.ENull); ok {
				return "(eqnull " + p.expr(x.Left) + ")"
			}
		case js_ast.BinOpLooseNe:
			if _, ok := x.Right.Data.(*js_ast.ENull); ok {
				return "(nenull " + p.expr(x.Left) + ")"
			}
		}
		l := p.expr(x.Left)
		return fmt.Sprintf("(binop-%d %s %s)", x.Op, l, p.expr(x.Right))
	case *js_ast.EIf:
		t := p.expr(x.Test)
		y := p.expr(x.Yes)
		return "(if " + t + " " + y + " " + p.expr(x.No) + ")"
	case *js_ast.EUnary:
		if x.Op == js_ast.UnOpVoid {
			return "undef"
		}
		if x.Op == js_ast.UnOpDelete {
			return "(delete " + p.expr(x.Value) + ")"
		}
	}
	return fmt.Sprintf("(OTHER %T)", e.Data)
}

func lower2Real(src string) string {
	return guard(func() string {
		log := logger.NewDeferLog(logger.DeferLogAll, nil)
		opts := js_parser.OptionsFromConfig(&config.Options{UnsupportedJSFeatures: compat.OptionalChain | compat.NullishCoalescing |
			compat.LogicalAssignment | compat.ExponentOperator | compat.TemplateLiteral})
		tree, ok := js_parser.Parse(log, logger.Source{Contents: src, KeyPath: logger.Path{Text: "/x.js", Namespace: "file"}, PrettyPaths: logger.PrettyPaths{Abs: "/x.js", Rel: "x.js"}}, opts)
		if !ok || log.HasErrors() {
			return "PARSE-ERROR"
		}
		p := &sexp2{ast: &tree, temps: map[uint32]int{}}
		for _, part := range tree.Parts {
			stmts := []js_ast.Stmt{}
			for _, st := range part.Stmts {
				if fn, ok := st.Data.(*js_ast.SFunction); ok {
					stmts = append(stmts, fn.Fn.Body.Block.Stmts...)
				} else {
					stmts = append(stmts, st)
				}
			}
			for _, st := range stmts {
				if se, ok := st.Data.(*js_ast.SExpr); ok {
					if bin, ok := se.Value.Data.(*js_ast.EBinary); ok && bin.Op == js_ast.BinOpAssign {
						return p.expr(bin.Right)
					}
				}
			}
		}
		return "NO-STATEMENT"
	})
}

func init() {
	kernels["lower2"] = func(r *gen.Rand, e *emitter, tier string) {
		for !e.full() {
			l2site = 0
			x := genL2(r, e, 1+r.Intn(6))
			if r.Chance(1, 40) {
				// malformed wire text: a proper prefix of a prefix-form term, a term with a trailing token,
				// an unknown token
				toks := strings.Split(x.wire, " ")
				switch r.Intn(3) {
				case 0:
					toks = toks[:len(toks)-1]
					e.stat("malformed:truncated")
				case 1:
					toks = append(toks, "v1")
					e.stat("malformed:trailing-token")
				default:
					toks[r.Intn(len(toks))] = r.Pick([]string{"Z9", "Aqv1", "vx", "A", "n", "Aoi7", "T"})
					e.stat("malformed:unknown-token")
				}
				e.emit("lower2\t"+strings.Join(toks, " "), "bad-op")
				continue
			}
			out := lower2Real("function once() { r = " + x.js + ";\n}\n")
			for _, key := range []string{"(or ", "(and ", "(pow ", "concat", "(eqnull ", "(nenull ", "(set ", "(idx ", "call) ", "(delete ", "__template", "true "} {
				if strings.Contains(out, key) {
					e.stat("out:" + strings.Trim(key, "( "))
				}
			}
			if strings.Contains(out, "UNLOWERED") || strings.Contains(out, "OTHER") || strings.Contains(out, "binop") ||
				out == "PARSE-ERROR" || out == "NO-STATEMENT" || out == "PANIC" {
				e.stat("real:unexpected-output")
			}
			if x.prec == 3 && strings.Contains(x.wire, " A") {
				e.stat("assign:nested-in-assign")
			}
			if strings.Contains(x.wire, "nullish") && strings.Contains(x.wire, "A") {
				e.stat("assign:with-nullish")
			}
			e.emit("lower2\t"+x.wire, out)
		}
	}
}
