package main

import (
	"fmt"
	"math"
	"math/big"
	"strconv"
	"strings"

	"github.com/evanw/esbuild/internal/config"
	"github.com/evanw/esbuild/internal/css_ast"
	"github.com/evanw/esbuild/internal/css_lexer"
	"github.com/evanw/esbuild/internal/css_parser"
	"github.com/evanw/esbuild/internal/logger"
	"github.com/evanw/esbuild/verifharness/gen"
)

// Kernel `calc`: tryToReduceCalcExpression (internal/css_parser/css_reduce_calc.go) against
// lean/EsbuildModel/Impl/Calc.lean.
//
//   reduce  the children of a `calc(` token → the replacing token or `keep`.  The children come either from the
//           REAL css_parser.Parse (MinifySyntax off, so nothing has been reduced or mangled yet) of a generated
//           declaration `a{width:calc(…)}` (real whitespace flags, real tokenisation of numbers), or are built
//           directly (malformed streams: arbitrary kinds, flags, nil children, wrong unit offsets, odd number texts).
//   assert  independent numeric check, no model involved (the driver answers `ok`): the input and the output token
//           tree are evaluated with math/big rationals by a small evaluator written for this harness (CSS grammar:
//           sums of products, `+`/`-` need white space) under a random assignment of quantities to units and opaque
//           functions; also the END-TO-END value: the same declaration through css_parser.Parse with MinifySyntax
//           (number mangling, nested reductions) is re-parsed and evaluated.  A difference beyond float rounding is
//           written as the expected line, so the correspondence fails on it (this is how the former defect
//           "multiplication by a dimension turned into division by a dimension", fixed in 6fe6000, shows up).
//   fmt / parsef  floatToStringForCalc and strconv.ParseFloat on boundary values.

func calcKindName(k css_lexer.T) string {
	switch k {
	case css_lexer.TFunction:
		return "F"
	case css_lexer.TOpenParen:
		return "("
	case css_lexer.TNumber:
		return "N"
	case css_lexer.TPercentage:
		return "%"
	case css_lexer.TDimension:
		return "D"
	case css_lexer.TIdent:
		return "I"
	case css_lexer.TDelimPlus:
		return "+"
	case css_lexer.TDelimMinus:
		return "-"
	case css_lexer.TDelimAsterisk:
		return "*"
	case css_lexer.TDelimSlash:
		return "/"
	}
	return fmt.Sprintf("k%d", uint8(k))
}

func calcShowToken(sb *strings.Builder, t css_ast.Token) {
	if sb.Len() > 0 {
		sb.WriteByte(' ')
	}
	n := "-"
	if t.Children != nil {
		n = strconv.Itoa(len(*t.Children))
	}
	fmt.Fprintf(sb, "%s,%d,%d,%s,%s", calcKindName(t.Kind), uint8(t.Whitespace), t.UnitOffset, hexBytes([]byte(t.Text)), n)
	if t.Children != nil {
		for _, c := range *t.Children {
			calcShowToken(sb, c)
		}
	}
}

func calcShowTokens(ts []css_ast.Token) string {
	if len(ts) == 0 {
		return "-"
	}
	var sb strings.Builder
	for _, t := range ts {
		calcShowToken(&sb, t)
	}
	return sb.String()
}

var calcUnits = []string{"", "", "", "px", "px", "px", "PX", "Px", "em", "em", "%", "%", "s", "ms", "deg", "rem", "vw", "S", "漢"}
var calcNiceNums = []string{"0", "1", "2", "3", "4", "5", "8", "10", "16", "20", "50", "100", "1000", "0.5", ".5", "0.25", ".125", "0.2", ".1",
	"0.01", ".05", "1.5", "2.5", "0.75", "0.00001", "0.000001", "100000", "0.04", "0.0625", "12.5", "-1", "-2", "-0.5", "-.25", "+3", "+.5", "-0", "0.0", "1.0", "010", "00.50"}
var calcOddNums = []string{"1e3", "1E2", "1.5e-2", "2e0", "5e-1", "1e16", "1e21", "1e22", "1e23", "1e308", "1.8e308", "1e309", "1e-5", "1e-6", "1e-323", "1e-324", "1e-400",
	"4.9e-324", "2.4703282292062327e-324", "2.4703282292062328e-324", "0.1", "0.3", "0.7", "0.30000000000000004", "0.333333", "0.33333", "3.14159", "3.141592", "9007199254740993", "9007199254740992",
	"123456.78901", "0.015625", "0.0078125", "2.5e-5", "1.5e-5", "0.000015", "0.000025", "1e99999999", "1e-99999999", "-1e999", "99999.99999999999", "1e+2", "1e-2", "179769313486231580793728971405303415079934132710037826936173778980444968292764750946649017977587207096330286416692887910946555547851940402630657488671505820681908902000708383676273854845817711531764475730270069855571366959622842914819860834936475292719074168444365510704342711559699508093042880177904174497791.999999"}

func calcNumber(r *gen.Rand) string {
	switch r.Intn(10) {
	case 0, 1, 2, 3, 4:
		return r.Pick(calcNiceNums)
	case 5:
		return r.Pick(calcOddNums)
	case 6: // random decimal with up to 6 fraction digits
		s := strconv.Itoa(r.Intn(2000))
		if r.Bool() {
			s += "." + strconv.Itoa(r.Intn(1000000))
		}
		if r.Chance(1, 4) {
			s = "-" + s
		}
		return s
	case 7: // powers of two and their reciprocals (the "reciprocal is shorter" deviation)
		k := r.Intn(12)
		if r.Bool() {
			return strconv.Itoa(1 << uint(k))
		}
		return strconv.FormatFloat(1/float64(int(1)<<uint(k)), 'f', -1, 64)
	case 8: // reciprocals of small integers, rounded and exact
		d := []int{2, 4, 5, 8, 10, 20, 25, 40, 50, 3, 6, 7}[r.Intn(12)]
		return strconv.FormatFloat(1/float64(d), 'f', []int{-1, 5, 6}[r.Intn(3)], 64)
	default: // exponent forms
		return fmt.Sprintf("%d%se%s%d", r.Intn(100), []string{"", ".5", ".25"}[r.Intn(3)], []string{"", "+", "-"}[r.Intn(3)], r.Intn(25))
	}
}

// calcExprText generates the inside of a calc(): sums of products with mostly valid white space
func calcExprText(r *gen.Rand, depth int) string {
	n := 1 + r.Intn(3)
	if r.Chance(1, 6) {
		n += r.Intn(4)
	}
	var sb strings.Builder
	for i := 0; i < n; i++ {
		if i > 0 {
			op := string("+-"[r.Intn(2)])
			switch r.Intn(14) {
			case 0:
				sb.WriteString(op + " ")
			case 1:
				sb.WriteString(" " + op)
			case 2:
				sb.WriteString(op)
			case 3:
				sb.WriteString("  " + op + "\n")
			default:
				sb.WriteString(" " + op + " ")
			}
		}
		m := 1
		if r.Chance(2, 5) {
			m += 1 + r.Intn(2)
		}
		for j := 0; j < m; j++ {
			if j > 0 {
				op := string("**/"[r.Intn(3)])
				switch r.Intn(4) {
				case 0:
					sb.WriteString(op)
				case 1:
					sb.WriteString(op + " ")
				default:
					sb.WriteString(" " + op + " ")
				}
			}
			sb.WriteString(calcAtomText(r, depth))
		}
	}
	return sb.String()
}

func calcAtomText(r *gen.Rand, depth int) string {
	k := r.Intn(24)
	if depth <= 0 && k < 6 {
		k = 10
	}
	switch k {
	case 0, 1, 2:
		return "(" + calcExprText(r, depth-1) + ")"
	case 3:
		return []string{"calc(", "CALC(", "Calc( "}[r.Intn(3)] + calcExprText(r, depth-1) + ")"
	case 4:
		return []string{"min(", "max(", "MIN("}[r.Intn(3)] + calcExprText(r, depth-1) + ", " + calcExprText(r, depth-1) + ")"
	case 5:
		return "(" + calcExprText(r, depth-1) + " )"
	case 6:
		if r.Chance(1, 3) {
			return []string{"var(--x)", "VAR(--y, 1px)", "env(safe-area-inset-top)"}[r.Intn(3)]
		}
		return []string{"min(1px, 2px)", "max(1, 2)", "min(1%, 2%)", "sin(1)", "env(x)"}[r.Intn(5)]
	case 7:
		if r.Chance(1, 2) {
			return []string{"Infinity", "infinity", "-Infinity", "-INFINITY", "NaN", "nan", "pi", "e", "x", "()", "( )", "[1]", ",", "1px 2px", "*", "/", "+", "-"}[r.Intn(18)]
		}
		return r.Pick(calcNiceNums)
	case 8: // division by zero and its neighbours
		return []string{"0", "(1 / 0)", "(1/0)", "(0 / 0)", "(-1 / 0)", "(1 / -0)", "0px", "0%", "(1 - 1)", "(2 * 0)"}[r.Intn(10)]
	default:
		return calcNumber(r) + r.Pick(calcUnits)
	}
}

func calcParseDecl(src string, minify bool) ([]css_ast.Token, bool) {
	opts := config.Options{MinifySyntax: minify}
	log := logger.NewDeferLog(logger.DeferLogNoVerboseOrDebug, nil)
	tree := css_parser.Parse(log, logger.Source{Index: 0, KeyPath: logger.Path{Text: "a.css"}, PrettyPaths: logger.PrettyPaths{Abs: "a.css", Rel: "a.css"}, Contents: src},
		css_parser.OptionsFromConfig(config.LoaderCSS, &opts))
	if len(tree.Rules) != 1 {
		return nil, false
	}
	sel, ok := tree.Rules[0].Data.(*css_ast.RSelector)
	if !ok || len(sel.Rules) != 1 {
		return nil, false
	}
	d, ok := sel.Rules[0].Data.(*css_ast.RDeclaration)
	if !ok {
		return nil, false
	}
	return d.Value, true
}

var calcAllKinds = []css_lexer.T{css_lexer.TFunction, css_lexer.TOpenParen, css_lexer.TNumber, css_lexer.TPercentage, css_lexer.TDimension, css_lexer.TIdent,
	css_lexer.TDelimPlus, css_lexer.TDelimMinus, css_lexer.TDelimAsterisk, css_lexer.TDelimSlash, css_lexer.TComma, css_lexer.TString, css_lexer.TDelim, css_lexer.TOpenBracket, css_lexer.THash}

// calcSynthTokens builds a token list directly: operators and operands in mostly alternating positions, but any flags
func calcSynthTokens(r *gen.Rand, depth int, wild bool) []css_ast.Token {
	n := 1 + 2*r.Intn(4)
	if r.Chance(1, 5) {
		n = r.Intn(8)
	}
	out := make([]css_ast.Token, 0, n)
	for i := 0; i < n; i++ {
		var t css_ast.Token
		t.Whitespace = css_ast.WhitespaceFlags(r.Intn(4))
		if !wild && r.Chance(3, 4) {
			t.Whitespace = 3
		}
		operator := i%2 == 1
		if r.Chance(1, 12) {
			operator = !operator
		}
		if wild && r.Chance(1, 6) {
			t.Kind = calcAllKinds[r.Intn(len(calcAllKinds))]
			t.Text = []string{"", "x", "calc", "var", "1", "%", "1px", "nan", "-infinity", "("}[r.Intn(10)]
			t.UnitOffset = uint16(r.Intn(4))
			if r.Chance(2, 3) {
				ch := calcSynthTokens(r, depth-1, wild)
				t.Children = &ch
			}
			out = append(out, t)
			continue
		}
		if operator {
			t.Kind = []css_lexer.T{css_lexer.TDelimPlus, css_lexer.TDelimMinus, css_lexer.TDelimAsterisk, css_lexer.TDelimSlash}[r.Intn(4)]
			t.Text = map[css_lexer.T]string{css_lexer.TDelimPlus: "+", css_lexer.TDelimMinus: "-", css_lexer.TDelimAsterisk: "*", css_lexer.TDelimSlash: "/"}[t.Kind]
			out = append(out, t)
			continue
		}
		switch k := r.Intn(12); {
		case k < 2 && depth > 0:
			ch := calcSynthTokens(r, depth-1, wild)
			t.Children = &ch
			if r.Bool() {
				t.Kind, t.Text = css_lexer.TOpenParen, "("
			} else {
				t.Kind, t.Text = css_lexer.TFunction, []string{"calc", "CALC", "min", "var", "Var"}[r.Intn(5)]
			}
		case k == 2:
			t.Kind, t.Text = css_lexer.TIdent, []string{"Infinity", "-infinity", "NaN", "x", "INFINITY", "nAn"}[r.Intn(6)]
		case k == 3:
			ch := []css_ast.Token{{Kind: css_lexer.TNumber, Text: "1"}}
			t.Kind, t.Text, t.Children = css_lexer.TFunction, "min", &ch
		default:
			num := calcNumber(r)
			if wild && r.Chance(1, 5) {
				num = []string{"", ".", "+", "-", "1.", "1e", "1e+", "e1", "1.2.3", "+-1", "1e1.5", "--1", ".e1", "1ee1", "1e-", "+.e2", "5.", "-.5e+2"}[r.Intn(18)]
			}
			switch r.Intn(3) {
			case 0:
				t.Kind, t.Text = css_lexer.TNumber, num
			case 1:
				t.Kind, t.Text = css_lexer.TPercentage, num+"%"
				if wild && r.Chance(1, 10) {
					t.Text = ""
				}
			default:
				u := r.Pick(calcUnits)
				if u == "" || u == "%" {
					u = "px"
				}
				t.Kind, t.Text, t.UnitOffset = css_lexer.TDimension, num+u, uint16(len(num))
				if wild && r.Chance(1, 8) {
					t.UnitOffset = uint16(r.Intn(len(t.Text) + 3))
				}
			}
		}
		out = append(out, t)
	}
	return out
}

// ---------------------------------------------------------------- independent numeric evaluation (math/big)

type calcEnv struct{ seed uint64 }

func (env calcEnv) pick(key string) *big.Rat {
	h := env.seed ^ 0xcbf29ce484222325
	for i := 0; i < len(key); i++ {
		h = (h ^ uint64(key[i])) * 0x100000001b3
	}
	h ^= h >> 29
	v := big.NewRat(int64(2+h%47), int64(1+(h>>8)%9))
	if (h>>20)&1 == 1 {
		v.Neg(v)
	}
	return v
}

func (env calcEnv) unit(u string) *big.Rat {
	u = strings.ToLower(u)
	switch u {
	case "":
		return big.NewRat(1, 1)
	case "ms":
		return new(big.Rat).Quo(env.pick("u:s"), big.NewRat(1000, 1))
	}
	return env.pick("u:" + u)
}

const (
	calcOK = iota
	calcSkip
	calcDivZero
)

func calcLiteral(text string) (*big.Rat, bool) {
	mant, exp := text, 0
	if i := strings.IndexAny(text, "eE"); i >= 0 {
		e, err := strconv.Atoi(text[i+1:])
		if err != nil || e > 330 || e < -330 {
			return nil, false
		}
		mant, exp = text[:i], e
	}
	v, ok := new(big.Rat).SetString(mant)
	if !ok {
		return nil, false
	}
	p := new(big.Rat).SetInt(new(big.Int).Exp(big.NewInt(10), big.NewInt(int64(calcAbs(exp))), nil))
	if exp >= 0 {
		v.Mul(v, p)
	} else {
		v.Quo(v, p)
	}
	if v.Sign() != 0 { // stay away from float64 underflow / overflow, where esbuild legitimately differs from exact arithmetic
		a := new(big.Rat).Abs(v)
		lim := new(big.Rat).SetInt(new(big.Int).Exp(big.NewInt(10), big.NewInt(100), nil))
		if a.Cmp(lim) > 0 || new(big.Rat).Inv(a).Cmp(lim) > 0 {
			return nil, false
		}
	}
	return v, true
}

func calcAbs(x int) int {
	if x < 0 {
		return -x
	}
	return x
}

func calcOpaqueKey(t css_ast.Token) string {
	var sb strings.Builder
	switch t.Kind {
	case css_lexer.TNumber, css_lexer.TPercentage, css_lexer.TDimension:
		num, unit := t.Text, ""
		if t.Kind == css_lexer.TPercentage {
			num, unit = t.PercentageValue(), "%"
		} else if t.Kind == css_lexer.TDimension {
			num, unit = t.DimensionValue(), strings.ToLower(t.DimensionUnit())
		}
		if v, ok := calcLiteral(num); ok {
			if unit == "ms" {
				v.Quo(v, big.NewRat(1000, 1))
				unit = "s"
			}
			return v.RatString() + unit
		}
		return t.Text
	}
	sb.WriteString(strings.ToLower(t.Text))
	if t.Children != nil {
		sb.WriteByte('<')
		for _, c := range *t.Children {
			sb.WriteString(calcOpaqueKey(c))
			sb.WriteByte(' ')
		}
		sb.WriteByte('>')
	}
	return sb.String()
}

func calcEvalOperand(t css_ast.Token, env calcEnv) (*big.Rat, *big.Rat, int) {
	switch t.Kind {
	case css_lexer.TNumber, css_lexer.TPercentage, css_lexer.TDimension:
		num, unit := t.Text, ""
		if t.Kind == css_lexer.TPercentage {
			num, unit = t.PercentageValue(), "%"
		} else if t.Kind == css_lexer.TDimension {
			num, unit = t.DimensionValue(), t.DimensionUnit()
		}
		v, ok := calcLiteral(num)
		if !ok {
			return nil, nil, calcSkip
		}
		v.Mul(v, env.unit(unit))
		return v, new(big.Rat).Abs(v), calcOK
	case css_lexer.TOpenParen:
		return calcEvalList(*t.Children, env)
	case css_lexer.TFunction:
		if strings.EqualFold(t.Text, "calc") {
			return calcEvalList(*t.Children, env)
		}
		if strings.EqualFold(t.Text, "var") {
			return nil, nil, calcSkip
		}
		// an opaque function is a pseudo-random function of its name and of the VALUES of its comma separated arguments
		// (the arguments are themselves minified, so their text is not stable)
		key := "f:" + strings.ToLower(t.Text)
		if t.Children != nil {
			var arg []css_ast.Token
			args := [][]css_ast.Token{}
			for _, c := range *t.Children {
				if c.Kind == css_lexer.TComma {
					args = append(args, arg)
					arg = nil
				} else {
					arg = append(arg, c)
				}
			}
			args = append(args, arg)
			for _, a := range args {
				if len(a) == 1 && a[0].Kind == css_lexer.TIdent {
					key += "," + calcOpaqueKey(a[0])
					continue
				}
				av, _, st := calcEvalList(a, env)
				if st != calcOK {
					return nil, nil, calcSkip
				}
				// 12 significant digits: an argument may legitimately change by float64 rounding of a literal
				// (`calc(1e23px)` is printed as `99999999999999991611392px`, the exact expansion of the double)
				af, _ := av.Float64()
				key += fmt.Sprintf(",%.12g", af)
			}
		}
		v := env.pick(key)
		return v, new(big.Rat).Abs(v), calcOK
	}
	return nil, nil, calcSkip
}

func calcEvalList(ts []css_ast.Token, env calcEnv) (*big.Rat, *big.Rat, int) {
	if len(ts)%2 == 0 {
		return nil, nil, calcSkip
	}
	sum, sumMag := new(big.Rat), new(big.Rat)
	var prod, prodMag *big.Rat
	neg := false
	flush := func() {
		if neg {
			sum.Sub(sum, prod)
		} else {
			sum.Add(sum, prod)
		}
		sumMag.Add(sumMag, prodMag)
	}
	for i := 0; i < len(ts); i += 2 {
		v, m, st := calcEvalOperand(ts[i], env)
		if st != calcOK {
			return nil, nil, st
		}
		if i == 0 {
			prod, prodMag = v, m
			continue
		}
		op := ts[i-1]
		switch op.Kind {
		case css_lexer.TDelimAsterisk:
			prod.Mul(prod, v)
			prodMag.Mul(prodMag, m)
		case css_lexer.TDelimSlash:
			if v.Sign() == 0 {
				return nil, nil, calcDivZero
			}
			prod.Quo(prod, v)
			prodMag.Quo(prodMag, new(big.Rat).Abs(v))
		case css_lexer.TDelimPlus, css_lexer.TDelimMinus:
			before := op.Whitespace&css_ast.WhitespaceBefore != 0 || ts[i-2].Whitespace&css_ast.WhitespaceAfter != 0
			after := op.Whitespace&css_ast.WhitespaceAfter != 0 || ts[i].Whitespace&css_ast.WhitespaceBefore != 0
			if !before || !after {
				return nil, nil, calcSkip
			}
			flush()
			neg = op.Kind == css_lexer.TDelimMinus
			prod, prodMag = v, m
		default:
			return nil, nil, calcSkip
		}
	}
	flush()
	return sum, sumMag, calcOK
}

// number of "/ <dimension or percentage>" at any depth
func calcSlashDims(ts []css_ast.Token) int {
	n := 0
	for i, t := range ts {
		if i > 0 && ts[i-1].Kind == css_lexer.TDelimSlash && (t.Kind == css_lexer.TDimension || t.Kind == css_lexer.TPercentage) {
			n++
		}
		if t.Children != nil {
			n += calcSlashDims(*t.Children)
		}
	}
	return n
}

// calcCompare: "" = fine (stat says how), otherwise the failure text
func calcCompare(e *emitter, tag string, in, out []css_ast.Token, seed uint64) string {
	known := calcSlashDims(out) > calcSlashDims(in)
	for k := uint64(0); k < 2; k++ {
		env := calcEnv{seed: seed + k*0x9E3779B97F4A7C15}
		a, mag, st := calcEvalList(in, env)
		if st != calcOK {
			e.stat(tag + []string{"", "-skip", "-divzero"}[st])
			return ""
		}
		b, _, st2 := calcEvalList(out, env)
		if st2 != calcOK {
			return fmt.Sprintf("%s: output not evaluable (%d)", tag, st2)
		}
		if a.Cmp(b) == 0 {
			continue
		}
		diff := new(big.Rat).Sub(a, b)
		diff.Abs(diff)
		tol := new(big.Rat).Mul(mag, big.NewRat(1, 1000000000))
		if diff.Cmp(tol) <= 0 {
			e.stat(tag + "-float-rounded")
			return ""
		}
		if known { // fixed in /repo (6fe6000); a reappearance fails the correspondence like any other value change
			e.stat(tag + "-mul-by-dimension-became-division")
		}
		return fmt.Sprintf("%s: value changed %s -> %s", tag, a.RatString(), b.RatString())
	}
	e.stat(tag + "-exact")
	return ""
}

func calcBoundaryFloat(r *gen.Rand) float64 {
	switch r.Intn(8) {
	case 0:
		return math.Float64frombits(r.U64())
	case 1:
		return []float64{0, math.Copysign(0, -1), 1, -1, 0.5, 0.1, 0.2, 0.3, 0.1 + 0.2, 1e5, 1e-5, 1e-6, 5e-6, 4.9e-6, 0.015625, 0.0078125, 1e15, 1e16, 1e21, 1e22, 1e23, 1e300,
			math.MaxFloat64, math.SmallestNonzeroFloat64, math.Inf(1), math.Inf(-1), math.NaN(), 99999.99999999999, 0.000015, 0.000025, -0.000004, 2.5e-6, 123456.78901}[r.Intn(33)]
	case 2: // k / 10^5 and its neighbours
		f := float64(r.Intn(2000000)-1000000) / 100000
		return math.Float64frombits(math.Float64bits(f) + uint64(r.Intn(3)) - 1)
	case 3: // exact ties of the sixth decimal: odd multiples of 2^-6 … 2^-10 scaled by 5^5
		k := 6 + r.Intn(6)
		return float64(2*r.Intn(500)+1) * 3125 / float64(int(1)<<uint(k))
	case 4:
		return float64(r.Intn(4000)-2000) / float64(int(1)<<uint(r.Intn(12)))
	case 5:
		return math.Ldexp(float64(1+r.Intn(1<<20)), r.Intn(2100)-1074)
	case 6:
		f, _ := strconv.ParseFloat(calcNumber(r), 64)
		return f
	default:
		return 1 / float64(1+r.Intn(200))
	}
}

func init() {
	kernels["calc"] = func(r *gen.Rand, e *emitter, tier string) {
		for !e.full() {
			switch c := r.Intn(20); {
			case c < 11: // real tokenisation of generated text
				expr := calcExprText(r, 2)
				src := "a{width:calc(" + expr + ")}"
				val, ok := calcParseDecl(src, false)
				if !ok || len(val) != 1 || val[0].Kind != css_lexer.TFunction || val[0].Children == nil {
					e.stat("text-unusable")
					continue
				}
				children := *val[0].Children
				mw := r.Chance(1, 4)
				op := fmt.Sprintf("calc\treduce\t%d\t%d\t%s", b2i(mw), len(children), calcShowTokens(children))
				var out css_ast.Token
				var replaced bool
				exp := guard(func() string {
					out, replaced = css_parser.VerifReduceCalc(children, mw)
					if !replaced {
						return "keep"
					}
					return calcShowTokens([]css_ast.Token{out})
				})
				calcStatResult(e, "text", exp, out)
				e.emit(op, exp)
				seed := r.U64()
				if replaced {
					res := calcCompare(e, "num-hook", children, []css_ast.Token{out}, seed)
					if res == "" {
						res = "ok"
					}
					e.emit("calc\tassert\t"+hexBytes([]byte(src)), res)
				}
				// end to end: number mangling + nested reductions + this reduction
				if min, ok := calcParseDecl(src, true); ok {
					res := calcCompare(e, "num-e2e", val, min, seed)
					if res == "" {
						res = "ok"
					}
					e.emit("calc\tassert\t"+hexBytes([]byte(src)), res)
				}
			case c < 17: // tokens built directly
				wild := c >= 14
				children := calcSynthTokens(r, 2, wild)
				mw := r.Chance(1, 4)
				op := fmt.Sprintf("calc\treduce\t%d\t%d\t%s", b2i(mw), len(children), calcShowTokens(children))
				var out css_ast.Token
				exp := guard(func() string {
					var replaced bool
					out, replaced = css_parser.VerifReduceCalc(children, mw)
					if !replaced {
						return "keep"
					}
					return calcShowTokens([]css_ast.Token{out})
				})
				tag := "synth"
				if wild {
					tag = "wild"
				}
				calcStatResult(e, tag, exp, out)
				e.emit(op, exp)
			case c < 19:
				f := calcBoundaryFloat(r)
				text, ok := css_parser.VerifFloatToStringForCalc(f)
				exp := "none"
				if ok {
					exp = hexBytes([]byte(text))
					e.stat("fmt-ok")
				} else {
					e.stat("fmt-none")
				}
				bits := math.Float64bits(f)
				if f != f {
					bits = 0x7ff8000000000000
				}
				e.emit(fmt.Sprintf("calc\tfmt\t%d", bits), exp)
			default:
				t := calcNumber(r)
				if r.Chance(1, 4) {
					t = []string{"", ".", "+", "-", "1.", "1e", "1e+", "e1", "1.2.3", "+-1", "1e1.5", "--1", ".e1", "1ee1", "1e-", "+.e2", "5.", "-.5e+2", "1e400", "-1e-400", "0e999999999999"}[r.Intn(21)]
				}
				f, err := strconv.ParseFloat(t, 64)
				exp := "err"
				if err == nil {
					exp = strconv.FormatUint(math.Float64bits(f), 10)
					e.stat("parsef-ok")
				} else {
					e.stat("parsef-err")
				}
				e.emit("calc\tparsef\t"+hexBytes([]byte(t)), exp)
			}
		}
	}
}

func calcStatResult(e *emitter, tag string, exp string, out css_ast.Token) {
	switch {
	case exp == "keep":
		e.stat(tag + "-keep")
	case exp == "PANIC":
		e.stat(tag + "-panic")
	case out.Kind == css_lexer.TFunction && out.Children != nil:
		e.stat(tag + "-calc")
		var walk func(ts []css_ast.Token, depth int)
		walk = func(ts []css_ast.Token, depth int) {
			for i, t := range ts {
				if t.Kind == css_lexer.TDelimMinus {
					e.stat("out-minus")
				}
				if t.Kind == css_lexer.TDelimSlash {
					e.stat("out-slash")
				}
				if t.Kind == css_lexer.TOpenParen && t.Children != nil {
					e.stat("out-paren")
					walk(*t.Children, depth+1)
				}
				_ = i
			}
		}
		walk(*out.Children, 0)
	default:
		e.stat(tag + "-single-token")
	}
}
