package main

import (
	"fmt"
	"regexp"
	"strings"

	"github.com/evanw/esbuild/internal/compat"
	"github.com/evanw/esbuild/internal/config"
	"github.com/evanw/esbuild/internal/css_ast"
	"github.com/evanw/esbuild/internal/css_lexer"
	"github.com/evanw/esbuild/internal/css_parser"
	"github.com/evanw/esbuild/internal/logger"
	"github.com/evanw/esbuild/verifharness/gen"
)

// Kernel `cssbox`: the box-shorthand collapsing of --minify-syntax (css_decls_box.go, driven by
// processDeclarations in css_decls.go) plus the duplicate removal of mangleRules, against
// lean/EsbuildModel/Impl/CssBox.lean, through the exported API only.
//
// One case = one declaration list.  It is parsed twice with the REAL css_parser.Parse (MinifySyntax on):
//   (A) `a{k1:v1;k2:v2;…}`            → the minified declaration list = expected answer;
//   (B) `a{x0-k1:v1;x1-k2:v2;…}`      → every property name is unknown and unique, so neither the trackers nor the
//       duplicate removal fire, but the values went through exactly the same convertTokens (number mangling,
//       calc reduction, whitespace flags): that is the list processDeclarations sees in (A); after stripping the
//       `x<i>-` prefixes it is the model's input.
// Declarations are compared as (key text, important, tokens) with kind/text/unit offset/whitespace flags per token;
// tokens the trackers never look into (functions, strings, delimiters …) are serialised recursively into an
// opaque text.

type cbDecl struct {
	key, val, imp string
}

var cbFamilies = [][]string{
	{"margin", "margin-top", "margin-right", "margin-bottom", "margin-left"},
	{"padding", "padding-top", "padding-right", "padding-bottom", "padding-left"},
	{"inset", "top", "right", "bottom", "left"},
}
var cbLogicalSuffix = []string{"-block-start", "-block-end", "-inline-start", "-inline-end", "-block", "-inline"}
var cbSafeVals = []string{"0", "0px", "1px", "2em", "10%", "auto", "3pt", "0em", "1px", "2px", "0%", "4cm"}
var cbOddVals = []string{"calc(1px + 2px)", "var(--x)", "inherit", "unset", "foo", "#fff", "5", "-1px", "0vw", "1vw", "2vw", "2vh",
	"1rem", "2rem", "0Q", "1PX", "0PX", "AUTO", "Auto", "0.0px", "+0px", "-0px", ".5em", "0İn", "1İn", "1e1px", "0e0",
	"\"s\"", "1px/2px", "calc(0px)", "env(x)", "1px,", "(1px)", "0IN", "1Px", "00", "0.0", "0x", "1q", "1Q", "1ex", "1ch"}
var cbUnrelated = []cbDecl{{"display", "block", ""}, {"width", "10px", ""}, {"float", "left", ""}, {"z-index", "1", ""},
	{"position", "absolute", ""}, {"width", "0px", ""}, {"display", "block", ""}, {"_margin", "0px", ""}, {"-x-margin-top", "1px", ""}}

func cbValue(r *gen.Rand, odd int) string {
	if r.Intn(100) < odd {
		return r.Pick(cbOddVals)
	}
	return r.Pick(cbSafeVals)
}

func cbCase(r *gen.Rand, malformed bool) []cbDecl {
	n := 1 + r.Intn(9)
	mainFam := r.Intn(3)
	odd := []int{0, 5, 15, 40}[r.Intn(4)]
	impPct := []int{0, 0, 10, 50}[r.Intn(4)]
	if malformed {
		odd = 50
	}
	out := []cbDecl{}
	for i := 0; i < n; i++ {
		fam := mainFam
		if r.Chance(1, 6) {
			fam = r.Intn(3)
		}
		names := cbFamilies[fam]
		d := cbDecl{}
		switch k := r.Intn(20); {
		case k < 2:
			d = cbUnrelated[r.Intn(len(cbUnrelated))]
		case k < 7: // shorthand
			d.key = names[0]
			m := 1 + r.Intn(4)
			if malformed && r.Chance(1, 6) {
				m = []int{0, 5, 6}[r.Intn(3)]
			}
			vs := []string{}
			for j := 0; j < m; j++ {
				vs = append(vs, cbValue(r, odd))
			}
			if r.Chance(1, 3) && m > 1 { // make collapsible repeats likely
				vs[m-1] = vs[(m-1)%2]
				if m > 2 {
					vs[2] = vs[0]
				}
			}
			d.val = strings.Join(vs, " ")
		default:
			d.key = names[1+r.Intn(4)]
			d.val = cbValue(r, odd)
			if malformed && r.Chance(1, 8) {
				d.val = []string{"", "1px 2px", "0 0"}[r.Intn(3)]
			}
		}
		if malformed && r.Chance(1, 4) {
			d.key = cbFamilies[fam][0] + r.Pick(cbLogicalSuffix)
			if r.Bool() {
				d.val = cbValue(r, odd) + " " + cbValue(r, odd)
			}
		}
		if malformed && r.Chance(1, 8) {
			d.key = strings.ToUpper(d.key)
		} else if malformed && r.Chance(1, 12) {
			d.key = strings.Replace(d.key, "i", "İ", 1)
		}
		if r.Intn(100) < impPct {
			d.imp = r.Pick([]string{"!important", " !important", " ! important", "!IMPORTANT"})
		}
		out = append(out, d)
		if r.Chance(1, 10) && len(out) > 0 { // exact duplicates (dead rule removal) and overrides
			out = append(out, out[r.Intn(len(out))])
		}
	}
	return out
}

func cbSource(ds []cbDecl, prefix bool, r *gen.Rand, seps []string) string {
	var sb strings.Builder
	sb.WriteString("a{")
	for i, d := range ds {
		if prefix {
			fmt.Fprintf(&sb, "x%d-", i)
		}
		sb.WriteString(d.key)
		sb.WriteString(seps[i])
		sb.WriteString(d.val)
		sb.WriteString(d.imp)
		sb.WriteString(";")
	}
	sb.WriteString("}")
	return sb.String()
}

func cbTokBlob(sb *strings.Builder, t css_ast.Token) {
	fmt.Fprintf(sb, "%d|%s|%d|%d", t.Kind, t.Text, t.PayloadIndex, t.UnitOffset)
	if t.Children != nil {
		sb.WriteString("(")
		for _, c := range *t.Children {
			fmt.Fprintf(sb, "%d:", c.Whitespace)
			cbTokBlob(sb, c)
			sb.WriteString(",")
		}
		sb.WriteString(")")
	}
}

func cbTok(t css_ast.Token) string {
	k := "x"
	if t.Children == nil && t.PayloadIndex == 0 {
		switch t.Kind {
		case css_lexer.TNumber:
			k = "n"
		case css_lexer.TPercentage:
			k = "p"
		case css_lexer.TDimension:
			k = "d"
		case css_lexer.TIdent:
			k = "i"
		}
	}
	if k == "x" {
		var sb strings.Builder
		cbTokBlob(&sb, t)
		return fmt.Sprintf("x%d.0.%s", t.Whitespace, hexBytes([]byte(sb.String())))
	}
	return fmt.Sprintf("%s%d.%d.%s", k, t.Whitespace, t.UnitOffset, hexBytes([]byte(t.Text)))
}

var cbPrefixRe = regexp.MustCompile(`^x[0-9]+-`)

// cbDecls returns the declarations of the single rule `a{…}`; ok=false when the AST has another shape
func cbDecls(ast css_ast.AST, strip bool) (out []string, ok bool) {
	if len(ast.Rules) != 1 {
		return nil, len(ast.Rules) == 0 && !strip
	}
	sel, isSel := ast.Rules[0].Data.(*css_ast.RSelector)
	if !isSel {
		return nil, false
	}
	for _, rule := range sel.Rules {
		d, isDecl := rule.Data.(*css_ast.RDeclaration)
		if !isDecl {
			return nil, false
		}
		key := d.KeyText
		if strip {
			loc := cbPrefixRe.FindStringIndex(key)
			if loc == nil {
				return nil, false
			}
			key = key[loc[1]:]
		}
		toks := []string{}
		for _, t := range d.Value {
			toks = append(toks, cbTok(t))
		}
		tl := "-"
		if len(toks) > 0 {
			tl = strings.Join(toks, ",")
		}
		imp := "0"
		if d.Important {
			imp = "1"
		}
		out = append(out, fmt.Sprintf("%s:%s:%s", hexBytes([]byte(key)), imp, tl))
	}
	return out, true
}

func cbParse(src string, mw, insetUnsupported bool) css_ast.AST {
	opts := config.Options{MinifySyntax: true, MinifyWhitespace: mw}
	if insetUnsupported {
		opts.UnsupportedCSSFeatures = compat.InsetProperty
	}
	log := logger.NewDeferLog(logger.DeferLogNoVerboseOrDebug, nil)
	return css_parser.Parse(log, logger.Source{Index: 0, KeyPath: logger.Path{Text: "a.css"}, PrettyPaths: logger.PrettyPaths{Abs: "a.css", Rel: "a.css"}, Contents: src},
		css_parser.OptionsFromConfig(config.LoaderCSS, &opts))
}

func cbJoin(l []string) string {
	if len(l) == 0 {
		return "-"
	}
	return strings.Join(l, ";")
}

func init() {
	kernels["cssbox"] = func(r *gen.Rand, e *emitter, tier string) {
		for !e.full() {
			malformed := r.Chance(1, 4)
			ds := cbCase(r, malformed)
			seps := make([]string, len(ds))
			for i := range seps {
				seps[i] = r.Pick([]string{":", ": ", " : ", ":  "})
			}
			mw := r.Chance(1, 3)
			iu := r.Chance(1, 4)
			flags := ""
			if mw {
				flags += "w"
			}
			if iu {
				flags += "i"
			}
			if flags == "" {
				flags = "-"
			}
			expected := guard(func() string {
				after, ok := cbDecls(cbParse(cbSource(ds, false, r, seps), mw, iu), false)
				if !ok {
					return "SKIP"
				}
				return cbJoin(after)
			})
			before, ok := cbDecls(cbParse(cbSource(ds, true, r, seps), mw, iu), true)
			if !ok || expected == "SKIP" {
				e.stat("skipped_shape")
				continue
			}
			// statistics (which paths of the model the case exercises)
			if malformed {
				e.stat("stream_malformed")
			} else {
				e.stat("stream_main")
			}
			nAfter := 0
			if expected != "-" && expected != "PANIC" {
				nAfter = strings.Count(expected, ";") + 1
			}
			switch {
			case expected == "PANIC":
				e.stat("go_panic")
			case nAfter < len(before):
				e.stat("out_shorter")
			case nAfter > len(before):
				e.stat("out_longer(lowerInset)")
			default:
				e.stat("out_same_length")
			}
			if cbJoin(before) == expected {
				e.stat("unchanged")
			}
			imp, nimp, logical, unsafe, zero, auto, odd, dup := 0, 0, 0, 0, 0, 0, 0, 0
			seen := map[string]bool{}
			for _, d := range ds {
				if d.imp != "" {
					imp++
				} else {
					nimp++
				}
				lk := strings.ToLower(d.key)
				if strings.Contains(lk, "-block") || strings.Contains(lk, "-inline") {
					logical++
				}
				for _, v := range strings.Fields(d.val) {
					switch {
					case strings.HasSuffix(v, "vw") || strings.HasSuffix(v, "rem") || strings.HasSuffix(v, "vh") || strings.HasSuffix(strings.ToLower(v), "q") || v == "5":
						unsafe++
					case v == "0px" || v == "0em" || v == "0PX" || v == "0IN":
						zero++
					case strings.EqualFold(v, "auto"):
						auto++
					case strings.ContainsAny(v, "(#\"/,"):
						odd++
					}
				}
				k := d.key + ":" + d.val + d.imp
				if seen[k] {
					dup++
				}
				seen[k] = true
			}
			if imp > 0 && nimp > 0 {
				e.stat("mixed_important")
			} else if imp > 0 {
				e.stat("all_important")
			}
			if logical > 0 {
				e.stat("has_logical")
			}
			if unsafe > 0 {
				e.stat("has_unsafe_unit")
			}
			if zero > 0 {
				e.stat("has_zero_length")
			}
			if auto > 0 {
				e.stat("has_auto")
			}
			if odd > 0 {
				e.stat("has_untracked_value")
			}
			if dup > 0 {
				e.stat("has_exact_duplicate")
			}
			if iu {
				e.stat("flag_inset_unsupported")
				for _, d := range ds {
					if strings.EqualFold(d.key, "inset") {
						e.stat("inset_shorthand_while_unsupported")
						break
					}
				}
			}
			if mw {
				e.stat("flag_minify_whitespace")
			}
			// proxies for the branches of the model, read off the real result
			for _, w := range []string{"0", "1", "2", "3"} {
				if strings.Contains(expected, "n"+w+".1.30") {
					e.stat("zero_length_turned_into_0")
					break
				}
			}
			mergedUnsafe, mergedAny := false, false
			for _, dd := range strings.Split(expected, ";") {
				parts := strings.SplitN(dd, ":", 3)
				if len(parts) != 3 {
					continue
				}
				k := parts[0]
				if k == hexBytes([]byte("margin")) || k == hexBytes([]byte("padding")) || k == hexBytes([]byte("inset")) {
					mergedAny = true
					if strings.Contains(parts[2], "72656d") || strings.Contains(parts[2], "7677") || strings.Contains(parts[2], "7668") {
						mergedUnsafe = true
					}
				}
			}
			if mergedAny {
				e.stat("shorthand_in_output")
			}
			if mergedUnsafe {
				e.stat("shorthand_with_unsafe_unit_in_output")
			}
			nTrackedSingle, nTrackedShort, nReset, nFlip := 0, 0, 0, 0
			lastImp := map[int]string{}
			for _, d := range ds {
				lk := strings.ToLower(strings.Replace(d.key, "İ", "i", -1))
				for fi, fam := range cbFamilies {
					for ki, name := range fam {
						if lk != name {
							continue
						}
						if prev, ok := lastImp[fi]; ok && (prev != "") != (d.imp != "") {
							nFlip++
						}
						lastImp[fi] = d.imp
						fields := strings.Fields(d.val)
						simple := len(fields) > 0
						for _, v := range fields {
							c := v[0]
							if !(c >= '0' && c <= '9' || c == '.' || c == '-' || c == '+' || strings.EqualFold(v, "auto")) || strings.ContainsAny(v, "/,(") {
								simple = false
							}
						}
						switch {
						case !simple || (ki > 0 && len(fields) != 1) || len(fields) > 4:
							nReset++
						case ki == 0:
							nTrackedShort++
						default:
							nTrackedSingle++
						}
					}
				}
			}
			if nTrackedSingle > 0 {
				e.stat("mangleSide_accepts")
			}
			if nTrackedShort > 0 {
				e.stat("mangleSides_accepts")
			}
			if nReset > 0 {
				e.stat("tracker_reset_by_value")
			}
			if nFlip > 0 {
				e.stat("tracker_reset_by_important_flip")
			}
			e.stat(fmt.Sprintf("shorthands_in_output=%d", strings.Count(";"+expected, ";"+hexBytes([]byte("margin"))+":")+
				strings.Count(";"+expected, ";"+hexBytes([]byte("padding"))+":")+strings.Count(";"+expected, ";"+hexBytes([]byte("inset"))+":")))
			e.emit(fmt.Sprintf("cssbox\t%s\t%s", flags, cbJoin(before)), expected)
		}
	}
}
