package main

import (
	"fmt"
	"math"
	"strconv"
	"strings"

	"github.com/evanw/esbuild/internal/ast"
	"github.com/evanw/esbuild/internal/compat"
	"github.com/evanw/esbuild/internal/js_ast"
	"github.com/evanw/esbuild/internal/logger"
	"github.com/evanw/esbuild/verifharness/gen"
)

// kernel "minijs": random expression trees over the language of lean/EsbuildModel/Spec/MiniJS.lean are built as
// REAL js_ast.Expr values and run through the real expression helpers of internal/js_ast/js_ast_helpers.go
// (MaybeSimplifyNot, Not, SimplifyBooleanExpr, ToBooleanWithSideEffects, ToNullOrUndefinedWithSideEffects,
// KnownPrimitiveType, TypeofWithoutSideEffects, IsPrimitiveLiteral, ValuesLookTheSame, CheckEqualityIfNoSideEffects,
// JoinWithLeftAssociativeOp, ExprCanBeRemovedIfUnused, MangleIfExpr, SimplifyUnusedExpr,
// MaybeSimplifyEqualityComparison); the resulting tree / value is printed as a prefix S-expression and compared
// with what the Lean model (Impl/MiniJS.lean) computes from the same input.

type mjKind int

const (
	mjUndef mjKind = iota
	mjNull
	mjBool
	mjNum
	mjStr
	mjIdent
	mjUnary
	mjBinary
	mjIf
	mjCall
	mjDot
	mjIndex
)

type mjNode struct {
	kind mjKind
	b    bool
	num  float64
	str  []uint16
	id   int
	op   string // wire name of the unary / binary operator
	kids []*mjNode
}

var mjUnOps = map[string]js_ast.OpCode{
	"not": js_ast.UnOpNot, "neg": js_ast.UnOpNeg, "pos": js_ast.UnOpPos, "cpl": js_ast.UnOpCpl,
	"void": js_ast.UnOpVoid, "typeof0": js_ast.UnOpTypeof, "typeof1": js_ast.UnOpTypeof,
}

var mjBinOps = map[string]js_ast.OpCode{
	"and": js_ast.BinOpLogicalAnd, "or": js_ast.BinOpLogicalOr, "nullish": js_ast.BinOpNullishCoalescing,
	"comma": js_ast.BinOpComma, "seq": js_ast.BinOpStrictEq, "sne": js_ast.BinOpStrictNe,
	"leq": js_ast.BinOpLooseEq, "lne": js_ast.BinOpLooseNe, "add": js_ast.BinOpAdd, "sub": js_ast.BinOpSub,
	"ushr": js_ast.BinOpUShr, "lt": js_ast.BinOpLt, "gt": js_ast.BinOpGt, "le": js_ast.BinOpLe, "ge": js_ast.BinOpGe,
}

var mjBinOpNames = func() map[js_ast.OpCode]string {
	m := map[js_ast.OpCode]string{}
	for k, v := range mjBinOps {
		m[v] = k
	}
	return m
}()

func mjHex(u []uint16) string {
	var sb strings.Builder
	for _, x := range u {
		fmt.Fprintf(&sb, "%04x", x)
	}
	return sb.String()
}

func mjNumStr(v float64) string {
	switch {
	case math.IsNaN(v):
		return "nan"
	case v == 0 && math.Signbit(v):
		return "-0"
	case math.IsInf(v, 1):
		return "inf"
	case math.IsInf(v, -1):
		return "-inf"
	case v == math.Trunc(v) && math.Abs(v) < 9e18:
		return strconv.FormatInt(int64(v), 10)
	}
	return "FRACTION"
}

// wire form of a generated tree (input of the model)
func (n *mjNode) wire(sb *strings.Builder) {
	switch n.kind {
	case mjUndef:
		sb.WriteString("U")
	case mjNull:
		sb.WriteString("Z")
	case mjBool:
		if n.b {
			sb.WriteString("T")
		} else {
			sb.WriteString("F")
		}
	case mjNum:
		sb.WriteString("n:" + mjNumStr(n.num))
	case mjStr:
		sb.WriteString("s:" + mjHex(n.str))
	case mjIdent:
		sb.WriteString("i:" + strconv.Itoa(n.id))
	case mjUnary:
		sb.WriteString("u:" + n.op + " ")
		n.kids[0].wire(sb)
	case mjBinary:
		sb.WriteString("b:" + n.op + " ")
		n.kids[0].wire(sb)
		sb.WriteString(" ")
		n.kids[1].wire(sb)
	case mjIf:
		sb.WriteString("if ")
		n.kids[0].wire(sb)
		sb.WriteString(" ")
		n.kids[1].wire(sb)
		sb.WriteString(" ")
		n.kids[2].wire(sb)
	case mjCall:
		sb.WriteString("c:" + strconv.Itoa(len(n.kids)-1))
		for _, k := range n.kids {
			sb.WriteString(" ")
			k.wire(sb)
		}
	case mjDot:
		sb.WriteString("d:" + mjHex(n.str) + " ")
		n.kids[0].wire(sb)
	case mjIndex:
		sb.WriteString("x ")
		n.kids[0].wire(sb)
		sb.WriteString(" ")
		n.kids[1].wire(sb)
	}
}

// js prints the node as JavaScript source (fully parenthesised); ok = false when the node has no source form
// (a typeof flag that the parser would set differently)
func (n *mjNode) js(mask int) (string, bool) {
	kid := func(i int) (string, bool) { return n.kids[i].js(mask) }
	switch n.kind {
	case mjUndef:
		return "(void 0)", true
	case mjNull:
		return "null", true
	case mjBool:
		if n.b {
			return "true", true
		}
		return "false", true
	case mjNum:
		switch {
		case n.num != n.num:
			return "NaN", true
		case math.IsInf(n.num, 1):
			return "Infinity", true
		case math.IsInf(n.num, -1):
			return "(-Infinity)", true
		case n.num == 0 && math.Signbit(n.num):
			return "(-0)", true
		case n.num < 0:
			return "(" + strconv.FormatFloat(n.num, 'g', -1, 64) + ")", true
		}
		return strconv.FormatFloat(n.num, 'g', -1, 64), true
	case mjStr:
		var sb strings.Builder
		sb.WriteByte('"')
		for _, c := range n.str {
			if c >= 0x20 && c < 0x7f && c != '"' && c != '\\' {
				sb.WriteByte(byte(c))
			} else {
				fmt.Fprintf(&sb, "\\u%04x", c)
			}
		}
		sb.WriteByte('"')
		return sb.String(), true
	case mjIdent:
		if (mask>>n.id)&1 == 1 {
			return "u" + strconv.Itoa(n.id), true
		}
		return "v" + strconv.Itoa(n.id), true
	case mjUnary:
		a, ok := kid(0)
		if !ok || (n.op == "typeof0") == (n.kids[0].kind == mjIdent) && strings.HasPrefix(n.op, "typeof") {
			return "", false
		}
		tok := map[string]string{"not": "!", "neg": "-", "pos": "+", "cpl": "~", "void": "void ", "typeof0": "typeof ", "typeof1": "typeof "}[n.op]
		return "(" + tok + a + ")", true
	case mjBinary:
		a, ok1 := kid(0)
		b, ok2 := kid(1)
		tok := map[string]string{"and": "&&", "or": "||", "nullish": "??", "comma": ",", "seq": "===", "sne": "!==", "leq": "==", "lne": "!=", "add": "+", "sub": "-", "ushr": ">>>", "lt": "<", "gt": ">", "le": "<=", "ge": ">="}[n.op]
		if n.op == "nullish" {
			// `a ?? b` cannot be mixed with && and || without parentheses: both operands are parenthesised already
		}
		return "(" + a + " " + tok + " " + b + ")", ok1 && ok2 && tok != ""
	case mjIf:
		c, ok1 := kid(0)
		y, ok2 := kid(1)
		z, ok3 := kid(2)
		return "(" + c + " ? " + y + " : " + z + ")", ok1 && ok2 && ok3
	case mjCall:
		t, ok := kid(0)
		args := []string{}
		for i := range n.kids[1:] {
			a, ok2 := kid(i + 1)
			ok = ok && ok2
			args = append(args, a)
		}
		return "(" + t + "(" + strings.Join(args, ", ") + "))", ok
	case mjDot:
		t, ok := kid(0)
		return "(" + t + "." + string(utf16ToBytes(n.str)) + ")", ok
	case mjIndex:
		t, ok1 := kid(0)
		i, ok2 := kid(1)
		return "(" + t + "[" + i + "])", ok1 && ok2
	}
	return "", false
}

// mjWitnessProgram: `if (<x>)` evaluated for 17*17 assignments of the six identifiers (bound ones are
// parameters, unbound ones globals); the program reports one character per assignment
func mjWitnessProgram(x *mjNode, mask int) (string, bool) {
	src, ok := x.js(mask)
	if !ok {
		return "", false
	}
	params, sets := []string{}, []string{}
	idx := []string{"i", "j", "(i + j) % n", "(i * 3 + j) % n", "(i + 2 * j + 1) % n", "(2 * i + j + 2) % n"}
	for k := 0; k < 6; k++ {
		if (mask>>k)&1 == 1 {
			sets = append(sets, fmt.Sprintf("globalThis.u%d = vals[%s];", k, idx[k]))
			params = append(params, fmt.Sprintf("w%d", k))
		} else {
			params = append(params, fmt.Sprintf("v%d", k))
		}
	}
	return "var vals = [\"0\", \" \", [], [0], 0, NaN, \"x\", 1, null, void 0, {valueOf() { return 0 }}, \"\", -0, true, false, 2, function () { return 0 }];\n" +
		"var n = vals.length;\n" +
		"function t(" + strings.Join(params, ", ") + ") { if (" + src + ") return \"1\"; else return \"0\"; }\n" +
		"var out = \"\";\n" +
		"for (var i = 0; i < n; i++) for (var j = 0; j < n; j++) {\n" + strings.Join(sets, " ") + "\n" +
		"try { out += t(vals[i], vals[j], vals[(i + j) % n], vals[(i * 3 + j) % n], vals[(i + 2 * j + 1) % n], vals[(2 * i + j + 2) % n]); } catch (e) { out += \"E\"; }\n}\n" +
		"p(1, out);\n", true
}

func (n *mjNode) String() string {
	var sb strings.Builder
	n.wire(&sb)
	return sb.String()
}

// the real AST; every call builds fresh nodes (the parser never shares nodes between two positions)
func (n *mjNode) expr() js_ast.Expr {
	switch n.kind {
	case mjUndef:
		return js_ast.Expr{Data: js_ast.EUndefinedShared}
	case mjNull:
		return js_ast.Expr{Data: js_ast.ENullShared}
	case mjBool:
		return js_ast.Expr{Data: &js_ast.EBoolean{Value: n.b}}
	case mjNum:
		return js_ast.Expr{Data: &js_ast.ENumber{Value: n.num}}
	case mjStr:
		return js_ast.Expr{Data: &js_ast.EString{Value: append([]uint16{}, n.str...)}}
	case mjIdent:
		return js_ast.Expr{Data: &js_ast.EIdentifier{Ref: ast.Ref{SourceIndex: 0, InnerIndex: uint32(n.id)}}}
	case mjUnary:
		return js_ast.Expr{Data: &js_ast.EUnary{Op: mjUnOps[n.op], Value: n.kids[0].expr(), WasOriginallyTypeofIdentifier: n.op == "typeof1"}}
	case mjBinary:
		return js_ast.Expr{Data: &js_ast.EBinary{Op: mjBinOps[n.op], Left: n.kids[0].expr(), Right: n.kids[1].expr()}}
	case mjIf:
		return js_ast.Expr{Data: &js_ast.EIf{Test: n.kids[0].expr(), Yes: n.kids[1].expr(), No: n.kids[2].expr()}}
	case mjCall:
		args := []js_ast.Expr{}
		for _, k := range n.kids[1:] {
			args = append(args, k.expr())
		}
		return js_ast.Expr{Data: &js_ast.ECall{Target: n.kids[0].expr(), Args: args}}
	case mjDot:
		return js_ast.Expr{Data: &js_ast.EDot{Target: n.kids[0].expr(), Name: string(utf16ToBytes(n.str))}}
	case mjIndex:
		return js_ast.Expr{Data: &js_ast.EIndex{Target: n.kids[0].expr(), Index: n.kids[1].expr()}}
	}
	panic("mjNode.expr")
}

// property names are ASCII in this kernel
func utf16ToBytes(u []uint16) []byte {
	b := make([]byte, len(u))
	for i, x := range u {
		b[i] = byte(x)
	}
	return b
}

// print a REAL expression in the wire form; anything outside the language is printed as (OTHER …) so that it can
// never agree with the model by accident
func mjPrint(sb *strings.Builder, e js_ast.Expr) {
	switch x := e.Data.(type) {
	case nil:
		sb.WriteString("NIL")
	case *js_ast.EUndefined:
		sb.WriteString("U")
	case *js_ast.ENull:
		sb.WriteString("Z")
	case *js_ast.EBoolean:
		if x.Value {
			sb.WriteString("T")
		} else {
			sb.WriteString("F")
		}
	case *js_ast.ENumber:
		sb.WriteString("n:" + mjNumStr(x.Value))
	case *js_ast.EString:
		sb.WriteString("s:" + mjHex(x.Value))
	case *js_ast.EIdentifier:
		if x.MustKeepDueToWithStmt || x.CanBeRemovedIfUnused || x.CallCanBeUnwrappedIfUnused {
			sb.WriteString("(FLAGS)")
		}
		sb.WriteString("i:" + strconv.Itoa(int(x.Ref.InnerIndex)))
	case *js_ast.EUnary:
		name := ""
		switch x.Op {
		case js_ast.UnOpNot:
			name = "not"
		case js_ast.UnOpNeg:
			name = "neg"
		case js_ast.UnOpPos:
			name = "pos"
		case js_ast.UnOpCpl:
			name = "cpl"
		case js_ast.UnOpVoid:
			name = "void"
		case js_ast.UnOpTypeof:
			name = "typeof0"
			if x.WasOriginallyTypeofIdentifier {
				name = "typeof1"
			}
		default:
			name = fmt.Sprintf("(OTHER-UNOP %d)", x.Op)
		}
		if x.WasOriginallyTypeofIdentifier && x.Op != js_ast.UnOpTypeof {
			name += "(FLAG)"
		}
		sb.WriteString("u:" + name + " ")
		mjPrint(sb, x.Value)
	case *js_ast.EBinary:
		name, ok := mjBinOpNames[x.Op]
		if !ok {
			name = fmt.Sprintf("(OTHER-BINOP %d)", x.Op)
		}
		sb.WriteString("b:" + name + " ")
		mjPrint(sb, x.Left)
		sb.WriteString(" ")
		mjPrint(sb, x.Right)
	case *js_ast.EIf:
		sb.WriteString("if ")
		mjPrint(sb, x.Test)
		sb.WriteString(" ")
		mjPrint(sb, x.Yes)
		sb.WriteString(" ")
		mjPrint(sb, x.No)
	case *js_ast.ECall:
		if x.OptionalChain != js_ast.OptionalChainNone || x.CanBeUnwrappedIfUnused || x.Kind != js_ast.NormalCall {
			sb.WriteString("(FLAGS)")
		}
		sb.WriteString("c:" + strconv.Itoa(len(x.Args)) + " ")
		mjPrint(sb, x.Target)
		for _, a := range x.Args {
			sb.WriteString(" ")
			mjPrint(sb, a)
		}
	case *js_ast.EDot:
		if x.OptionalChain != js_ast.OptionalChainNone || x.CanBeRemovedIfUnused || x.CallCanBeUnwrappedIfUnused || x.IsSymbolInstance {
			sb.WriteString("(FLAGS)")
		}
		u := make([]uint16, len(x.Name))
		for i := 0; i < len(x.Name); i++ {
			u[i] = uint16(x.Name[i])
		}
		sb.WriteString("d:" + mjHex(u) + " ")
		mjPrint(sb, x.Target)
	case *js_ast.EIndex:
		if x.OptionalChain != js_ast.OptionalChainNone || x.CanBeRemovedIfUnused || x.CallCanBeUnwrappedIfUnused || x.IsSymbolInstance {
			sb.WriteString("(FLAGS)")
		}
		sb.WriteString("x ")
		mjPrint(sb, x.Target)
		sb.WriteString(" ")
		mjPrint(sb, x.Index)
	default:
		fmt.Fprintf(sb, "(OTHER %T)", e.Data)
	}
}

func mjShow(e js_ast.Expr) string {
	var sb strings.Builder
	mjPrint(&sb, e)
	return sb.String()
}

func mjB(b bool) string {
	if b {
		return "1"
	}
	return "0"
}

var _ = compat.OptionalChain
var _ = logger.Loc{}
var _ = gen.New

// ---------------------------------------------------------------- generator

func mjU16(s string) []uint16 {
	u := []uint16{}
	for _, c := range s {
		if c >= 0x10000 {
			c -= 0x10000
			u = append(u, uint16(0xd800+(c>>10)), uint16(0xdc00+(c&0x3ff)))
		} else {
			u = append(u, uint16(c))
		}
	}
	return u
}

var mjStrings = []string{"", "", "0", "a", "u", "u", "undefined", "undefined", "object", "function", "number", "string", "boolean", "ab", "é", "\U0001F600", "v", "t"}
var mjNumbers = []float64{0, math.Copysign(0, -1), 1, -1, 2, 42, math.NaN(), math.Inf(1), math.Inf(-1), 4294967296, -2147483648, 9007199254740991, 7}
var mjUnNames = []string{"not", "not", "not", "neg", "pos", "cpl", "void", "typeof0", "typeof1"}
var mjBinNames = []string{"and", "and", "or", "or", "nullish", "comma", "comma", "seq", "sne", "leq", "lne", "add", "sub", "ushr", "lt", "gt", "le", "ge"}
var mjEqNames = []string{"seq", "sne", "leq", "lne"}
var mjRelNames = []string{"lt", "gt", "le", "ge"}
var mjProps = []string{"p", "q", "length", ""}

type mjGen struct {
	r    *gen.Rand
	pool []*mjNode
}

func (n *mjNode) clone() *mjNode {
	c := *n
	c.kids = nil
	for _, k := range n.kids {
		c.kids = append(c.kids, k.clone())
	}
	return &c
}

// clone that flips WasOriginallyTypeofIdentifier on some typeof nodes: ValuesLookTheSame must tell them apart
// (regression generator for the fixed defect "typeof x and typeof (0, x) look the same")
func (g *mjGen) cloneFlip(n *mjNode) *mjNode {
	c := n.clone()
	var walk func(x *mjNode)
	walk = func(x *mjNode) {
		if x.kind == mjUnary && (x.op == "typeof0" || x.op == "typeof1") && g.r.Bool() {
			if x.op == "typeof0" {
				x.op = "typeof1"
			} else {
				x.op = "typeof0"
			}
		}
		for _, k := range x.kids {
			walk(k)
		}
	}
	walk(c)
	return c
}

func (g *mjGen) lit() *mjNode {
	r := g.r
	switch r.Intn(7) {
	case 0:
		return &mjNode{kind: mjUndef}
	case 1:
		return &mjNode{kind: mjNull}
	case 2:
		return &mjNode{kind: mjBool, b: r.Bool()}
	case 3, 4:
		return &mjNode{kind: mjNum, num: mjNumbers[r.Intn(len(mjNumbers))]}
	default:
		return &mjNode{kind: mjStr, str: mjU16(mjStrings[r.Intn(len(mjStrings))])}
	}
}

func (g *mjGen) ident() *mjNode { return &mjNode{kind: mjIdent, id: g.r.Intn(6)} }

func (g *mjGen) un(op string, a *mjNode) *mjNode {
	return &mjNode{kind: mjUnary, op: op, kids: []*mjNode{a}}
}
func (g *mjGen) bin(op string, a, b *mjNode) *mjNode {
	return &mjNode{kind: mjBinary, op: op, kids: []*mjNode{a, b}}
}
func (g *mjGen) str(s string) *mjNode { return &mjNode{kind: mjStr, str: mjU16(s)} }

// `typeof x <op> "string"` in either operand order; the typeof flag is usually what the parser would set
func (g *mjGen) typeofTest(id int) *mjNode {
	r := g.r
	flag := "typeof1"
	if r.Chance(1, 8) {
		flag = "typeof0"
	}
	var operand *mjNode = &mjNode{kind: mjIdent, id: id}
	if r.Chance(1, 12) {
		operand = g.expr(1) // flag on a non-identifier: never produced by the parser, the helpers still have to agree
	}
	ty := g.un(flag, operand)
	var op, s string
	if r.Chance(1, 2) {
		op = mjEqNames[r.Intn(4)]
		s = []string{"undefined", "undefined", "object", "function", "u", ""}[r.Intn(6)]
	} else {
		op = mjRelNames[r.Intn(4)]
		s = []string{"u", "u", "u", "undefined", "v", "t"}[r.Intn(6)]
	}
	if r.Chance(1, 3) {
		return g.bin(op, g.str(s), ty)
	}
	return g.bin(op, ty, g.str(s))
}

func (g *mjGen) expr(depth int) *mjNode {
	n := g.expr1(depth)
	if len(g.pool) < 64 {
		g.pool = append(g.pool, n)
	} else {
		g.pool[g.r.Intn(64)] = n
	}
	return n
}

func (g *mjGen) expr1(depth int) *mjNode {
	r := g.r
	if depth <= 0 || r.Chance(1, 6) {
		if r.Chance(2, 5) {
			return g.ident()
		}
		return g.lit()
	}
	switch r.Intn(20) {
	case 0, 1, 2:
		return g.un(mjUnNames[r.Intn(len(mjUnNames))], g.expr(depth-1))
	case 3, 4, 5, 6, 7:
		return g.bin(mjBinNames[r.Intn(len(mjBinNames))], g.expr(depth-1), g.expr(depth-1))
	case 8, 9:
		c, y, n := g.ifParts(depth - 1)
		return &mjNode{kind: mjIf, kids: []*mjNode{c, y, n}}
	case 10:
		k := r.Intn(4)
		kids := []*mjNode{g.expr(depth - 1)}
		for i := 0; i < k; i++ {
			kids = append(kids, g.expr(depth-1))
		}
		return &mjNode{kind: mjCall, kids: kids}
	case 11:
		return &mjNode{kind: mjDot, str: mjU16(mjProps[r.Intn(len(mjProps))]), kids: []*mjNode{g.expr(depth - 1)}}
	case 12:
		return &mjNode{kind: mjIndex, kids: []*mjNode{g.expr(depth - 1), g.expr(depth - 1)}}
	case 13:
		return g.typeofTest(r.Intn(6))
	case 14:
		// guarded reference: `typeof x !== "undefined" && x`, `typeof x < "u" ? x : alt` …
		id := r.Intn(6)
		guard := g.typeofTest(id)
		ref := &mjNode{kind: mjIdent, id: id}
		if r.Chance(1, 8) {
			ref = g.ident()
		}
		switch r.Intn(4) {
		case 0:
			return g.bin("and", guard, ref)
		case 1:
			return g.bin("or", guard, ref)
		case 2:
			return &mjNode{kind: mjIf, kids: []*mjNode{guard, ref, g.expr(depth - 1)}}
		default:
			return &mjNode{kind: mjIf, kids: []*mjNode{guard, g.expr(depth - 1), ref}}
		}
	case 15:
		// `(a >>> b) !== 0` and friends
		var l *mjNode = g.bin("ushr", g.expr(depth-1), g.expr(depth-1))
		if r.Chance(1, 3) {
			l = g.bin([]string{"and", "or"}[r.Intn(2)], l, g.bin("ushr", g.expr(depth-1), g.expr(depth-1)))
		} else if r.Chance(1, 4) {
			l = &mjNode{kind: mjIf, kids: []*mjNode{g.expr(depth - 1), l, g.bin("ushr", g.ident(), g.lit())}}
		} else if r.Chance(1, 2) {
			// near misses: only ONE operand of the logical operator / one branch is an integer (no rewrite allowed:
			// the other one may be a truthy value that is loosely equal to 0, or NaN)
			other := g.expr(depth - 1)
			switch r.Intn(5) {
			case 0:
				l = g.bin("or", other, l)
			case 1:
				l = g.bin("and", other, l)
			case 2:
				l = g.bin([]string{"and", "or", "nullish", "comma"}[r.Intn(4)], l, other)
			case 3:
				l = &mjNode{kind: mjIf, kids: []*mjNode{g.expr(depth - 1), l, other}}
			default:
				l = &mjNode{kind: mjIf, kids: []*mjNode{g.expr(depth - 1), other, l}}
			}
		}
		z := &mjNode{kind: mjNum, num: []float64{0, 0, math.Copysign(0, -1), 1}[r.Intn(4)]}
		return g.bin(mjEqNames[r.Intn(4)], l, z)
	case 16:
		// `x == null`, `null != x`
		x := g.expr(depth - 1)
		op := []string{"leq", "lne", "seq", "sne"}[r.Intn(4)]
		if r.Bool() {
			return g.bin(op, x, &mjNode{kind: mjNull})
		}
		return g.bin(op, &mjNode{kind: mjNull}, x)
	case 17:
		if len(g.pool) > 0 {
			return g.pool[r.Intn(len(g.pool))].clone()
		}
		return g.lit()
	case 18:
		// negation towers
		e := g.expr(depth - 1)
		for k := r.Intn(4); k >= 0; k-- {
			e = g.un("not", e)
		}
		return e
	case 19:
		// string addition chains: 'x' + y + 'z', x + 'y', ('' + x) + 'y', x + ''
		var e *mjNode
		if r.Bool() {
			e = g.str(mjStrings[r.Intn(len(mjStrings))])
		} else {
			e = g.expr(depth - 1)
		}
		for k := 1 + r.Intn(3); k > 0; k-- {
			var rhs *mjNode
			if r.Chance(3, 5) {
				rhs = g.str(mjStrings[r.Intn(len(mjStrings))])
			} else {
				rhs = g.expr(depth - 1)
			}
			if r.Chance(1, 6) {
				e = g.bin("add", rhs, e)
			} else {
				e = g.bin("add", e, rhs)
			}
		}
		return e
	default:
		return g.goodGuard(depth)
	}
}

// a reference to a (possibly unbound) identifier behind a typeof test that esbuild recognises
func (g *mjGen) goodGuard(depth int) *mjNode {
	r := g.r
	id := r.Intn(6)
	ty := g.un("typeof1", &mjNode{kind: mjIdent, id: id})
	ref := &mjNode{kind: mjIdent, id: id}
	var alt *mjNode
	if r.Bool() {
		alt = g.lit()
	} else {
		alt = g.pureish(depth - 1)
	}
	// definedWhenTrue: the test is true exactly when x is defined
	var test *mjNode
	definedWhenTrue := r.Bool()
	switch r.Intn(4) {
	case 0: // typeof x !== 'undefined' / === 'undefined'
		op := []string{"sne", "lne"}[r.Intn(2)]
		if !definedWhenTrue {
			op = []string{"seq", "leq"}[r.Intn(2)]
		}
		test = g.bin(op, ty, g.str("undefined"))
		if r.Chance(1, 3) {
			test = g.bin(op, g.str("undefined"), ty)
		}
	case 1: // typeof x === 'object' (only the true branch knows)
		definedWhenTrue = true
		test = g.bin([]string{"seq", "leq"}[r.Intn(2)], ty, g.str([]string{"object", "function", "number"}[r.Intn(3)]))
	case 2: // typeof x < 'u' / > 'u'
		op := []string{"lt", "le"}[r.Intn(2)]
		if !definedWhenTrue {
			op = []string{"gt", "ge"}[r.Intn(2)]
		}
		test = g.bin(op, ty, g.str("u"))
	default: // 'u' > typeof x / 'u' < typeof x
		op := []string{"gt", "ge"}[r.Intn(2)]
		if !definedWhenTrue {
			op = []string{"lt", "le"}[r.Intn(2)]
		}
		test = g.bin(op, g.str("u"), ty)
	}
	if r.Chance(1, 10) {
		definedWhenTrue = !definedWhenTrue // deliberately wrong branch
	}
	switch r.Intn(3) {
	case 0:
		if definedWhenTrue {
			return g.bin("and", test, ref)
		}
		return g.bin("or", test, ref)
	default:
		if definedWhenTrue {
			return &mjNode{kind: mjIf, kids: []*mjNode{test, ref, alt}}
		}
		return &mjNode{kind: mjIf, kids: []*mjNode{test, alt, ref}}
	}
}

// the three parts of a conditional, biased towards the shapes MangleIfExpr looks for
func (g *mjGen) ifParts(depth int) (c, y, n *mjNode) {
	r := g.r
	c = g.expr(depth)
	switch r.Intn(16) {
	case 0: // a ? b : b
		y = g.expr(depth)
		n = y.clone()
		if r.Chance(1, 4) {
			if r.Bool() {
				y = g.un([]string{"typeof0", "typeof1"}[r.Intn(2)], g.ident())
			}
			n = g.cloneFlip(y)
		}
	case 1: // a ? a : b / a ? b : a with identifiers (or anything else)
		if r.Chance(3, 4) {
			c = g.ident()
		}
		if r.Bool() {
			y, n = c.clone(), g.expr(depth)
		} else {
			y, n = g.expr(depth), c.clone()
		}
	case 2: // booleans
		y = &mjNode{kind: mjBool, b: r.Bool()}
		n = &mjNode{kind: mjBool, b: r.Bool()}
	case 3: // a ? b ? c : d : d
		d := g.expr(depth)
		y = &mjNode{kind: mjIf, kids: []*mjNode{g.expr(depth), g.expr(depth), d}}
		n = d.clone()
	case 4: // a ? b : c ? b : d
		b := g.expr(depth)
		y = b
		n = &mjNode{kind: mjIf, kids: []*mjNode{g.expr(depth), b.clone(), g.expr(depth)}}
	case 5: // a ? c : (b, c)
		y = g.expr(depth)
		n = g.bin("comma", g.expr(depth), y.clone())
	case 6: // a ? (b, c) : c
		n = g.expr(depth)
		y = g.bin("comma", g.expr(depth), n.clone())
	case 7: // a ? b || c : c
		n = g.expr(depth)
		y = g.bin("or", g.expr(depth), n.clone())
	case 8: // a ? c : b && c
		y = g.expr(depth)
		n = g.bin("and", g.expr(depth), y.clone())
	case 9, 10: // a ? f(c, d) : f(e, d)
		if r.Chance(2, 3) {
			c = g.pureish(depth)
		}
		var f *mjNode
		if r.Chance(2, 3) {
			f = g.pureish(depth)
		} else {
			f = g.expr(depth)
		}
		k := r.Intn(3)
		ya := []*mjNode{f, g.expr(depth)}
		na := []*mjNode{f.clone(), g.expr(depth)}
		for i := 0; i < k; i++ {
			t := g.expr(depth)
			ya = append(ya, t)
			if r.Chance(1, 8) {
				na = append(na, g.expr(depth))
			} else {
				na = append(na, t.clone())
			}
		}
		if r.Chance(1, 10) {
			na = na[:len(na)-1]
		}
		y = &mjNode{kind: mjCall, kids: ya}
		n = &mjNode{kind: mjCall, kids: na}
	case 11, 12: // x == null ? b : x and the three other arrangements
		var x *mjNode
		if r.Chance(2, 3) {
			x = g.pureish(depth)
		} else {
			x = g.expr(depth)
		}
		op := []string{"leq", "lne", "leq", "lne", "seq", "sne"}[r.Intn(6)]
		if r.Bool() {
			c = g.bin(op, x, &mjNode{kind: mjNull})
		} else {
			c = g.bin(op, &mjNode{kind: mjNull}, x)
		}
		other := g.expr(depth)
		if r.Chance(1, 4) {
			other = &mjNode{kind: mjUndef}
		}
		if r.Chance(1, 5) {
			other = g.bin("nullish", g.expr(depth), g.expr(depth))
		}
		if (op == "leq" || op == "seq") != r.Chance(1, 6) {
			y, n = other, x.clone()
		} else {
			y, n = x.clone(), other
		}
	case 13: // (a, b) ? c : d and !a ? c : d
		if r.Bool() {
			c = g.bin("comma", g.expr(depth), c)
		} else {
			c = g.un("not", c)
		}
		y, n = g.expr(depth), g.expr(depth)
	default:
		y, n = g.expr(depth), g.expr(depth)
	}
	// every shape also behind "!a" and "(x, a)"
	if r.Chance(1, 8) {
		c = g.un("not", c)
	} else if r.Chance(1, 12) {
		c = g.bin("comma", g.expr(1), c)
	}
	return
}

// an expression that ExprCanBeRemovedIfUnused is likely to accept
func (g *mjGen) pureish(depth int) *mjNode {
	r := g.r
	if depth <= 0 || r.Chance(1, 3) {
		if r.Bool() {
			return g.ident()
		}
		return g.lit()
	}
	switch r.Intn(8) {
	case 0:
		return g.un([]string{"not", "void", "typeof0", "typeof1"}[r.Intn(4)], g.pureish(depth-1))
	case 1:
		return g.bin([]string{"seq", "sne", "comma", "nullish", "and", "or"}[r.Intn(6)], g.pureish(depth-1), g.pureish(depth-1))
	case 2:
		return g.typeofTest(r.Intn(6))
	case 3:
		return &mjNode{kind: mjIf, kids: []*mjNode{g.pureish(depth - 1), g.pureish(depth - 1), g.pureish(depth - 1)}}
	case 4:
		return g.bin([]string{"leq", "lne", "lt", "gt", "le", "ge"}[r.Intn(6)], g.lit(), g.lit())
	case 5:
		return g.bin([]string{"leq", "lne", "lt", "ge"}[r.Intn(4)], g.un("typeof1", g.ident()), g.str([]string{"u", "undefined", "object"}[r.Intn(3)]))
	case 6:
		return g.goodGuard(depth)
	default:
		return g.ident()
	}
}

// ---------------------------------------------------------------- the kernel

// does the tree read an identifier that the mask calls unbound, other than as the operand of typeof?
func mjHasUnboundRef(n *mjNode, mask int) bool {
	if n.kind == mjIdent {
		return (mask>>uint(n.id))&1 == 1
	}
	if n.kind == mjUnary && (n.op == "typeof0" || n.op == "typeof1") && n.kids[0].kind == mjIdent {
		return false
	}
	for _, k := range n.kids {
		if mjHasUnboundRef(k, mask) {
			return true
		}
	}
	return false
}

func mjTopKind(e js_ast.Expr) string {
	switch x := e.Data.(type) {
	case nil:
		return "nil"
	case *js_ast.EBinary:
		return mjBinOpNames[x.Op]
	case *js_ast.EUnary:
		if x.Op == js_ast.UnOpNot {
			return "not"
		}
		return "unary"
	case *js_ast.EIf:
		return "if"
	case *js_ast.ECall:
		return "call"
	case *js_ast.EBoolean:
		return "bool"
	case *js_ast.EIdentifier:
		return "ident"
	case *js_ast.EDot, *js_ast.EIndex:
		return "member"
	}
	return "literal"
}

var mjPrimNames = []string{"unknown", "mixed", "null", "undefined", "boolean", "number", "string", "bigint"}

func init() {
	kernels["minijs"] = func(r *gen.Rand, e *emitter, tier string) {
		g := &mjGen{r: r}
		mask := func() int {
			switch r.Intn(4) {
			case 0:
				return 0
			case 1:
				return 63
			}
			return r.Intn(64)
		}
		ctxOf := func(m int) js_ast.HelperContext {
			return js_ast.MakeHelperContext(func(ref ast.Ref) bool { return (m>>ref.InnerIndex)&1 == 1 })
		}
		for !e.full() {
			depth := 1 + r.Intn(5)
			switch r.Intn(21) {
			case 0, 1: // MaybeSimplifyNot
				x := g.expr(depth)
				out := guard(func() string {
					res, ok := js_ast.MaybeSimplifyNot(x.expr())
					if !ok {
						e.stat("not:none")
						return "none"
					}
					e.stat("not:some:" + mjTopKind(res))
					return mjShow(res)
				})
				e.emit("minijs\tnot\t"+x.String(), out)
			case 2: // Not
				x := g.expr(depth)
				e.stat("notx")
				e.emit("minijs\tnotx\t"+x.String(), guard(func() string { return mjShow(js_ast.Not(x.expr())) }))
			case 6: // SimplifyUnusedExpr (OptionalChain reported as unsupported)
				var x *mjNode
				if r.Chance(1, 3) {
					x = g.pureish(depth)
				} else {
					x = g.expr(depth)
				}
				m := mask()
				in := x.String()
				out := guard(func() string {
					res := ctxOf(m).SimplifyUnusedExpr(x.expr(), compat.OptionalChain)
					e.stat("unused:out=" + mjTopKind(res))
					return mjShow(res)
				})
				if out == in {
					e.stat("unused:unchanged")
				}
				e.emit(fmt.Sprintf("minijs\tunused\t%d\t%s", m, in), out)
			case 3, 4, 5: // SimplifyBooleanExpr
				x := g.expr(depth)
				m := mask()
				in := x.String()
				out := guard(func() string { return mjShow(ctxOf(m).SimplifyBooleanExpr(x.expr())) })
				if out == in {
					e.stat("sbe:unchanged")
				} else {
					e.stat("sbe:changed")
				}
				if src, ok := mjWitnessProgram(x, m); ok {
					// end-to-end witness: the expression as the test of an `if`, run over a menu of operand values
					// (truthy values that are loosely equal to 0, NaN, -0, objects with valueOf, …)
					e.emitW(fmt.Sprintf("minijs\tsbe\t%d\t%s", m, in), out, "c03-prog", map[string]string{"source": src, "opt_name": "ms"})
				} else {
					e.emit(fmt.Sprintf("minijs\tsbe\t%d\t%s", m, in), out)
				}
			case 7: // ToBooleanWithSideEffects
				x := g.expr(depth)
				e.emit("minijs\ttobool\t"+x.String(), guard(func() string {
					b, se, ok := js_ast.ToBooleanWithSideEffects(x.expr().Data)
					e.stat(fmt.Sprintf("tobool:ok=%v,noSE=%v", ok, se == js_ast.NoSideEffects))
					return mjB(b) + " " + mjB(se == js_ast.NoSideEffects) + " " + mjB(ok)
				}))
			case 8: // ToNullOrUndefinedWithSideEffects
				x := g.expr(depth)
				e.emit("minijs\ttonull\t"+x.String(), guard(func() string {
					b, se, ok := js_ast.ToNullOrUndefinedWithSideEffects(x.expr().Data)
					e.stat(fmt.Sprintf("tonull:ok=%v,noSE=%v", ok, se == js_ast.NoSideEffects))
					return mjB(b) + " " + mjB(se == js_ast.NoSideEffects) + " " + mjB(ok)
				}))
			case 9: // KnownPrimitiveType
				x := g.expr(depth)
				e.emit("minijs\tkpt\t"+x.String(), guard(func() string {
					t := mjPrimNames[js_ast.KnownPrimitiveType(x.expr().Data)]
					e.stat("kpt:" + t)
					return t
				}))
			case 10: // TypeofWithoutSideEffects, IsPrimitiveLiteral
				x := g.expr(r.Intn(2))
				if r.Bool() {
					e.emit("minijs\ttypeof\t"+x.String(), guard(func() string {
						s, ok := js_ast.TypeofWithoutSideEffects(x.expr().Data)
						if !ok {
							e.stat("typeof:none")
							return "none"
						}
						e.stat("typeof:some")
						return "s:" + mjHex(mjU16(s))
					}))
				} else {
					e.stat("isprim")
					e.emit("minijs\tisprim\t"+x.String(), guard(func() string { return mjB(js_ast.IsPrimitiveLiteral(x.expr().Data)) }))
				}
			case 11: // ValuesLookTheSame, CheckEqualityIfNoSideEffects
				a := g.expr(depth)
				var b *mjNode
				switch r.Intn(4) {
				case 3:
					if r.Bool() {
						a = g.un([]string{"typeof0", "typeof1"}[r.Intn(2)], g.ident())
					}
					b = g.cloneFlip(a)
				case 0:
					b = a.clone()
				case 1:
					b = g.expr(depth)
				default:
					a, b = g.lit(), g.lit()
				}
				if r.Chance(2, 3) {
					e.emit("minijs\tvlts\t"+a.String()+"\t"+b.String(), guard(func() string {
						v := js_ast.ValuesLookTheSame(a.expr().Data, b.expr().Data)
						e.stat(fmt.Sprintf("vlts:%v", v))
						as, bs := a.String(), b.String()
						if as != bs && strings.ReplaceAll(as, "typeof0", "typeof1") == strings.ReplaceAll(bs, "typeof0", "typeof1") {
							// the two trees differ only in WasOriginallyTypeofIdentifier flags
							e.stat(fmt.Sprintf("vlts:only-typeof-flags-differ:%v", v))
						}
						return mjB(v)
					}))
				} else {
					kind := r.Intn(2)
					e.emit(fmt.Sprintf("minijs\tcheq\t%d\t%s\t%s", kind, a.String(), b.String()), guard(func() string {
						k := js_ast.LooseEquality
						if kind == 1 {
							k = js_ast.StrictEquality
						}
						eq, ok := js_ast.CheckEqualityIfNoSideEffects(a.expr().Data, b.expr().Data, k)
						e.stat(fmt.Sprintf("cheq:ok=%v", ok))
						return mjB(eq) + " " + mjB(ok)
					}))
				}
			case 19: // MaybeSimplifyEqualityComparison
				op := mjEqNames[r.Intn(4)]
				var a, b *mjNode
				switch r.Intn(4) {
				case 0: // boolean-typed value against a boolean literal
					a = g.un("not", g.expr(depth-1))
					if r.Chance(1, 3) {
						a = g.bin(mjRelNames[r.Intn(4)], g.expr(depth-1), g.expr(depth-1))
					}
					b = &mjNode{kind: mjBool, b: r.Bool()}
				case 1: // typeof against "undefined"
					a = g.un([]string{"typeof0", "typeof1"}[r.Intn(2)], g.expr(r.Intn(2)))
					b = g.str([]string{"undefined", "undefined", "undefined", "object", "u"}[r.Intn(5)])
				case 2:
					a, b = g.lit(), g.lit()
				default:
					a, b = g.expr(depth-1), g.lit()
				}
				if r.Chance(1, 3) {
					a, b = b, a
				}
				typeofOK := r.Chance(3, 4)
				e.emit(fmt.Sprintf("minijs\teqcmp\t%s\t%s\t%s\t%s", mjB(typeofOK), op, a.String(), b.String()), guard(func() string {
					var unsupported compat.JSFeature
					if !typeofOK {
						unsupported = compat.TypeofExoticObjectIsObject
					}
					res, ok := js_ast.MaybeSimplifyEqualityComparison(logger.Loc{}, &js_ast.EBinary{Op: mjBinOps[op], Left: a.expr(), Right: b.expr()}, unsupported)
					if !ok {
						e.stat("eqcmp:none")
						return "none"
					}
					e.stat("eqcmp:some:" + mjTopKind(res))
					return mjShow(res)
				}))
			case 12: // JoinWithLeftAssociativeOp
				op := []string{"and", "or", "nullish"}[r.Intn(3)]
				mk := func() *mjNode {
					x := g.expr(depth)
					for k := r.Intn(3); k > 0; k-- {
						if r.Bool() {
							x = g.bin(op, g.expr(1), x)
						} else {
							x = g.bin("comma", g.expr(1), x)
						}
					}
					return x
				}
				a, b := mk(), mk()
				e.stat("join:" + op)
				e.emit("minijs\tjoin\t"+op+"\t"+a.String()+"\t"+b.String(), guard(func() string {
					return mjShow(js_ast.JoinWithLeftAssociativeOp(mjBinOps[op], a.expr(), b.expr()))
				}))
			case 13, 14: // ExprCanBeRemovedIfUnused
				var x *mjNode
				if r.Bool() {
					x = g.pureish(depth)
				} else {
					x = g.expr(depth)
				}
				m := mask()
				e.emit(fmt.Sprintf("minijs\trm\t%d\t%s", m, x.String()), guard(func() string {
					v := ctxOf(m).ExprCanBeRemovedIfUnused(x.expr())
					e.stat(fmt.Sprintf("rm:%v", v))
					if v && mjHasUnboundRef(x, m) {
						e.stat("rm:true-with-guarded-unbound-ref")
					}
					return mjB(v)
				}))
			case 15, 16, 17, 18: // MangleIfExpr
				c, y, n := g.ifParts(depth - 1)
				m := mask()
				nullishOK := r.Chance(3, 4)
				in := "if " + c.String() + " " + y.String() + " " + n.String()
				out := guard(func() string {
					unsupported := compat.OptionalChain
					if !nullishOK {
						unsupported |= compat.NullishCoalescing
					}
					eif := &js_ast.EIf{Test: c.expr(), Yes: y.expr(), No: n.expr()}
					res := ctxOf(m).MangleIfExpr(logger.Loc{}, eif, unsupported)
					e.stat("ifx:out=" + mjTopKind(res))
					return mjShow(res)
				})
				if in == out {
					e.stat("ifx:unchanged")
				}
				e.emit(fmt.Sprintf("minijs\tifx\t%s\t%d\t%s\t%s\t%s", mjB(nullishOK), m, c.String(), y.String(), n.String()), out)
			default: // malformed operations: the model has to reject them, nothing is run
				x := g.expr(depth).String()
				switch r.Intn(5) {
				case 0:
					toks := strings.Split(x, " ")
					x = strings.Join(toks[:len(toks)-1], " ") // one operand missing (or empty)
					if len(toks) == 1 {
						x = ""
					}
				case 1:
					x = x + " U" // trailing token
				case 2:
					x = "b:pow " + x + " U"
				case 3:
					x = "n:1.5"
				default:
					x = "c:3 " + x
				}
				e.stat("malformed")
				e.emit("minijs\t"+[]string{"not", "kpt", "tobool", "notx"}[r.Intn(4)]+"\t"+x, "bad-op")
			}
		}
	}
}
