package main

// 3. runtime helpers: runtime.Source(unsupportedJSFeatures) builds the helper source text from string segments,
// some of them under `if !unsupportedJSFeatures.Has(compat.F) && … { … } else { … }`. For every segment: the guards it
// is under and the syntax features a token-level scanner finds in it.
//
// The scanner is deliberately small: it skips comments and '…' / "…" strings and recognises what can be told from
// tokens alone (see scanFeatures). Not recognised: default arguments, destructuring in parameters, shorthand
// properties (the printer expands those), `async (…) =>`.

import (
	"bytes"
	"fmt"
	"go/ast"
	"go/printer"
	"go/token"
	"regexp"
	"sort"
	"strconv"
	"strings"
)

func nodeText(fset *token.FileSet, n ast.Node) string {
	var b bytes.Buffer
	printer.Fprint(&b, fset, n)
	return strings.Join(strings.Fields(b.String()), " ")
}

type jsTok struct {
	kind byte // 'i' identifier, 'n' number, 's' string, 'p' punctuator
	text string
}

var jsPuncts = []string{
	">>>=", "...", "===", "!==", "**=", "<<=", ">>=", ">>>", "&&=", "||=", "??=",
	"=>", "==", "!=", "<=", ">=", "&&", "||", "??", "?.", "++", "--", "+=", "-=", "*=", "/=", "%=", "&=", "|=", "^=", "<<", ">>", "**",
}

func isIdentStart(c byte) bool {
	return c == '_' || c == '$' || c == '#' || (c >= 'a' && c <= 'z') || (c >= 'A' && c <= 'Z') || c >= 0x80
}
func isDigit(c byte) bool { return c >= '0' && c <= '9' }

func jsTokens(src string) []jsTok {
	var out []jsTok
	i := 0
	for i < len(src) {
		c := src[i]
		switch {
		case c == ' ' || c == '\t' || c == '\n' || c == '\r':
			i++
		case c == '/' && i+1 < len(src) && src[i+1] == '/':
			for i < len(src) && src[i] != '\n' {
				i++
			}
		case c == '/' && i+1 < len(src) && src[i+1] == '*':
			j := strings.Index(src[i+2:], "*/")
			if j < 0 {
				i = len(src)
			} else {
				i += j + 4
			}
		case c == '\'' || c == '"':
			j := i + 1
			for j < len(src) && src[j] != c && src[j] != '\n' {
				if src[j] == '\\' {
					j++
				}
				j++
			}
			if j < len(src) {
				j++
			}
			out = append(out, jsTok{'s', src[i:j]})
			i = j
		case c == '`':
			out = append(out, jsTok{'p', "`"})
			i++
		case isIdentStart(c):
			j := i + 1
			for j < len(src) && (isIdentStart(src[j]) || isDigit(src[j])) {
				j++
			}
			out = append(out, jsTok{'i', src[i:j]})
			i = j
		case isDigit(c) || (c == '.' && i+1 < len(src) && isDigit(src[i+1])):
			j := i + 1
			for j < len(src) && (isDigit(src[j]) || src[j] == '.' || src[j] == '_' || (src[j] >= 'a' && src[j] <= 'z') || (src[j] >= 'A' && src[j] <= 'Z')) {
				j++
			}
			out = append(out, jsTok{'n', src[i:j]})
			i = j
		default:
			matched := ""
			for _, p := range jsPuncts {
				if strings.HasPrefix(src[i:], p) {
					if p == "?." && i+2 < len(src) && isDigit(src[i+2]) {
						continue
					}
					matched = p
					break
				}
			}
			if matched == "" {
				matched = string(c)
			}
			out = append(out, jsTok{'p', matched})
			i += len(matched)
		}
	}
	return out
}

var jsNonMethodWords = map[string]bool{"if": true, "for": true, "while": true, "switch": true, "catch": true, "with": true, "function": true, "return": true, "typeof": true, "void": true, "new": true, "in": true, "of": true, "instanceof": true, "else": true, "do": true, "throw": true, "delete": true, "await": true, "yield": true}

// scanFeatures returns the compat.JSFeature names whose syntax occurs in a piece of JavaScript text
func scanFeatures(src string) []string {
	toks := jsTokens(src)
	found := map[string]bool{}
	at := func(k int) jsTok {
		if k < 0 || k >= len(toks) {
			return jsTok{}
		}
		return toks[k]
	}
	isP := func(k int, s string) bool { t := at(k); return t.kind == 'p' && t.text == s }
	isI := func(k int, s string) bool { t := at(k); return t.kind == 'i' && t.text == s }
	// a keyword use: not a property name (`.x`, `x:`)
	keyword := func(k int) bool { return !isP(k-1, ".") && !isP(k-1, "?.") && !isP(k+1, ":") }
	var parens []int // indices of open ( and [
	match := map[int]int{}
	for k, t := range toks {
		switch t.kind {
		case 'n':
			if strings.HasSuffix(t.text, "n") && !strings.HasPrefix(t.text, "0x") && !strings.HasPrefix(t.text, "0X") {
				found["Bigint"] = true
			} else if (strings.HasPrefix(t.text, "0x") || strings.HasPrefix(t.text, "0X")) && strings.HasSuffix(t.text, "n") {
				found["Bigint"] = true
			}
		case 'i':
			if strings.HasPrefix(t.text, "#") {
				found["ClassPrivateField"] = true
				continue
			}
			if !keyword(k) {
				continue
			}
			switch t.text {
			case "of":
				if at(k-1).kind == 'i' || isP(k-1, "]") || isP(k-1, "}") {
					found["ForOf"] = true
				}
			case "let", "const":
				found["ConstAndLet"] = true
				if isP(k+1, "[") || isP(k+1, "{") {
					found["Destructuring"] = true
				}
			case "var":
				if isP(k+1, "[") || isP(k+1, "{") {
					found["Destructuring"] = true
				}
			case "get", "set":
				n := at(k + 1)
				if n.kind == 'i' || n.kind == 's' || n.kind == 'n' || (n.kind == 'p' && n.text == "[") {
					found["ObjectAccessors"] = true
				}
			case "class":
				found["Class"] = true
			case "function":
				if isP(k+1, "*") {
					found["Generator"] = true
				}
			case "yield":
				found["Generator"] = true
			case "await":
				found["AsyncAwait"] = true
				if isI(k-1, "for") {
					found["ForAwait"] = true
				}
			case "async":
				if isI(k+1, "function") || (at(k+1).kind == 'i' && isP(k+2, "=>")) {
					found["AsyncAwait"] = true
				}
			case "new":
				if isP(k+1, ".") && isI(k+2, "target") {
					found["NewTarget"] = true
				}
			case "import":
				if isP(k+1, ".") && isI(k+2, "meta") {
					found["ImportMeta"] = true
				}
				if isP(k+1, "(") {
					found["DynamicImport"] = true
				}
			case "using":
				if at(k+1).kind == 'i' && isP(k+2, "=") {
					found["Using"] = true
				}
			}
		case 'p':
			switch t.text {
			case "=>":
				found["Arrow"] = true
			case "...":
				found["RestArgument"] = true
				found["ArraySpread"] = true
				found["ObjectRestSpread"] = true
			case "**", "**=":
				found["ExponentOperator"] = true
			case "??":
				found["NullishCoalescing"] = true
			case "?.":
				found["OptionalChain"] = true
			case "||=", "&&=", "??=":
				found["LogicalAssignment"] = true
			case "`":
				found["TemplateLiteral"] = true
			case "(", "[":
				parens = append(parens, k)
			case ")", "]":
				if n := len(parens); n > 0 {
					open := parens[n-1]
					parens = parens[:n-1]
					if (toks[open].text == "(") == (t.text == ")") {
						match[k] = open
					}
				}
				if t.text == "]" && isP(k+1, ":") {
					// { [key]: value }
					if open, ok := match[k]; ok && (isP(open-1, "{") || isP(open-1, ",")) {
						found["ObjectExtensions"] = true
					}
				}
			case "{":
				// name(args) { … } that is not a function expression / statement head: a method in an object literal
				if isP(k-1, ")") {
					if open, ok := match[k-1]; ok {
						head := at(open - 1)
						switch {
						case head.kind == 'i' && !jsNonMethodWords[head.text] && !isI(open-2, "function") && !(isP(open-2, "*") && isI(open-3, "function")) && !isP(open-2, ".") && !isP(open-2, "?."):
							if !isI(open-2, "get") && !isI(open-2, "set") {
								found["ObjectExtensions"] = true
							}
						case head.kind == 'p' && head.text == "]":
							// [computed](args) { … }
							if o2, ok := match[open-1]; ok && (isP(o2-1, "{") || isP(o2-1, ",") || isI(o2-1, "get") || isI(o2-1, "set")) {
								found["ObjectExtensions"] = true
							}
						}
					}
				}
			}
		}
	}
	var out []string
	for f := range found {
		out = append(out, f)
	}
	sort.Strings(out)
	return out
}

var helperDeclRE = regexp.MustCompile(`(?m)^[ \t]*(?:export[ \t]+)?(?:var|let|const|function)[ \t]+(__[A-Za-z0-9_$]+)`)

type rtCond struct {
	holds    bool     // true: then-branch (every feature is supported), false: else-branch
	features []string // the F of `!Has(F) && …`
}

type rtSegment struct {
	line     int
	conds    []rtCond // the enclosing if statements, outermost first
	features []string
	helpers  []string
}

func extractRuntimeGuards(features map[string]bool) {
	const rel = "internal/runtime/runtime.go"
	fset, f := parseFile(rel)
	if f == nil {
		return
	}
	local := compatLocalName(f)
	fd := findFunc(f, "Source")
	if fd == nil || local == "" || len(fd.Type.Params.List) != 1 || len(fd.Type.Params.List[0].Names) != 1 {
		fail("%s: func Source(unsupportedJSFeatures compat.JSFeature) not found", rel)
		return
	}
	param := fd.Type.Params.List[0].Names[0].Name
	textVar := ""
	var segs []rtSegment
	ok := true

	// cond: conjunction of !param.Has(compat.F)
	var condFeatures func(e ast.Expr) ([]string, bool)
	condFeatures = func(e ast.Expr) ([]string, bool) {
		switch x := e.(type) {
		case *ast.ParenExpr:
			return condFeatures(x.X)
		case *ast.BinaryExpr:
			if x.Op == token.LAND {
				l, ok1 := condFeatures(x.X)
				r, ok2 := condFeatures(x.Y)
				return append(l, r...), ok1 && ok2
			}
		case *ast.UnaryExpr:
			if x.Op == token.NOT {
				if c, ok := x.X.(*ast.CallExpr); ok && calleeName(c) == "Has" && len(c.Args) == 1 {
					if sel, ok := c.Fun.(*ast.SelectorExpr); ok {
						if id, ok := sel.X.(*ast.Ident); ok && id.Name == param {
							if ft, ok := featureSel(c.Args[0], local, features); ok {
								return []string{ft}, true
							}
						}
					}
				}
			}
		}
		return nil, false
	}
	var addText func(lit ast.Expr, pos token.Pos, conds []rtCond)
	addText = func(lit ast.Expr, pos token.Pos, conds []rtCond) {
		bl, isLit := lit.(*ast.BasicLit)
		if !isLit || bl.Kind != token.STRING {
			fail("%s:%d: the runtime text is extended by something that is not a string literal", rel, fset.Position(pos).Line)
			ok = false
			return
		}
		s, err := strconv.Unquote(bl.Value)
		if err != nil {
			fail("%s:%d: cannot unquote string literal", rel, fset.Position(pos).Line)
			ok = false
			return
		}
		var helpers []string
		for _, m := range helperDeclRE.FindAllStringSubmatch(s, -1) {
			helpers = append(helpers, m[1])
		}
		segs = append(segs, rtSegment{fset.Position(pos).Line, append([]rtCond{}, conds...), scanFeatures(s), helpers})
	}
	var walk func(stmts []ast.Stmt, conds []rtCond)
	walk = func(stmts []ast.Stmt, conds []rtCond) {
		for _, st := range stmts {
			switch x := st.(type) {
			case *ast.AssignStmt:
				if len(x.Lhs) != 1 || len(x.Rhs) != 1 {
					continue
				}
				id, isId := x.Lhs[0].(*ast.Ident)
				if !isId {
					continue
				}
				if x.Tok == token.DEFINE && textVar == "" {
					if bl, isLit := x.Rhs[0].(*ast.BasicLit); isLit && bl.Kind == token.STRING {
						textVar = id.Name
						addText(x.Rhs[0], x.Pos(), conds)
					}
					continue
				}
				if id.Name == textVar {
					if x.Tok != token.ADD_ASSIGN {
						fail("%s:%d: %s is written with %s (only += of a literal is modelled)", rel, fset.Position(x.Pos()).Line, textVar, x.Tok)
						ok = false
						continue
					}
					addText(x.Rhs[0], x.Pos(), conds)
				}
			case *ast.IfStmt:
				fs, good := condFeatures(x.Cond)
				if !good || x.Init != nil {
					fail("%s:%d: condition is not a conjunction of !%s.Has(compat.F): %s", rel, fset.Position(x.Pos()).Line, param, nodeText(fset, x.Cond))
					ok = false
					continue
				}
				walk(x.Body.List, append(append([]rtCond{}, conds...), rtCond{true, fs}))
				elseConds := append(append([]rtCond{}, conds...), rtCond{false, fs})
				switch e := x.Else.(type) {
				case *ast.BlockStmt:
					walk(e.List, elseConds)
				case *ast.IfStmt:
					walk([]ast.Stmt{e}, elseConds)
				}
			case *ast.ReturnStmt, *ast.DeclStmt, *ast.EmptyStmt:
			default:
				// any other statement form could change the text in a way this extractor does not see
				mentionsText := false
				ast.Inspect(st, func(n ast.Node) bool {
					if id, isId := n.(*ast.Ident); isId && textVar != "" && id.Name == textVar {
						mentionsText = true
					}
					return true
				})
				if mentionsText {
					fail("%s:%d: unmodelled statement mentions %s", rel, fset.Position(st.Pos()).Line, textVar)
					ok = false
				}
			}
		}
	}
	walk(fd.Body.List, nil)
	if !ok {
		return
	}
	if len(segs) == 0 {
		fail("%s: no text segment found in Source", rel)
		return
	}
	// the text must be what is returned: Contents: text
	returnsText := false
	ast.Inspect(fd.Body, func(n ast.Node) bool {
		if kv, isKV := n.(*ast.KeyValueExpr); isKV {
			if k, isId := kv.Key.(*ast.Ident); isId && k.Name == "Contents" {
				if v, isId := kv.Value.(*ast.Ident); isId && v.Name == textVar {
					returnsText = true
				}
			}
		}
		return true
	})
	if !returnsText {
		fail("%s: Source does not return Contents: %s", rel, textVar)
		return
	}

	var sb strings.Builder
	fmt.Fprintf(&sb, "-- GENERATED by harness/cmd/extract (c14runtime.go) from %s — do not edit\nnamespace EsbuildModel.Gen.RuntimeGuards\n\n", rel)
	sb.WriteString("structure Segment where\n  conds : List (Bool × List String)\n  features : List String\n  helpers : List String\nderiving DecidableEq, Repr\n\n")
	sb.WriteString("/-- the string literals `runtime.Source` concatenates, in order. `conds`: the enclosing `if !Has(F₁) && !Has(F₂) …` statements,\noutermost first — (true, [F₁, F₂]) for the then-branch (emitted when NONE of the Fᵢ is unsupported), (false, …) for the\nelse-branch; `features`: the syntax features the token scanner finds in the text; `helpers`: the `__name` declarations\nthat start in it -/\n")
	sb.WriteString("def segments : List Segment := [\n")
	for i, s := range segs {
		comma := ","
		if i == len(segs)-1 {
			comma = ""
		}
		cs := make([]string, len(s.conds))
		for k, c := range s.conds {
			cs[k] = fmt.Sprintf("(%v, %s)", c.holds, leanQList(c.features))
		}
		fmt.Fprintf(&sb, "  ⟨[%s], %s, %s⟩%s\n", strings.Join(cs, ", "), leanQList(s.features), leanQList(s.helpers), comma)
	}
	sb.WriteString("]\n\nend EsbuildModel.Gen.RuntimeGuards\n")
	writeIfChanged("RuntimeGuards.lean", sb.String())
}
