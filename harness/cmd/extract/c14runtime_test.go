package main

import (
	"strings"
	"testing"
)

// the token scanner behind Gen/RuntimeGuards.lean: what it must and must not report
func TestScanFeatures(t *testing.T) {
	cases := []struct{ src, want string }{
		{"for (var prop of f(b)) {", "ForOf"},
		{"for (let key of names) x = () => from[key]", "Arrow,ConstAndLet,ForOf"},
		{"var a = { get: () => 1, set: x => 2 }, s = 'const of let `' // let of", "Arrow"},
		{"({ get _() { return 1 }, set _(v) {} })", "ObjectAccessors"},
		{"{ get [name]() { return 1 } }", "ObjectAccessors,ObjectExtensions"},
		{"desc.get = fn, it.set", ""},
		{"var o = { m(a) { return a }, [k]: 1 }", "ObjectExtensions"},
		{"if (a) { b() } while (c(d)) { e } function f(x) { } (function(x) { })", ""},
		{"a ??= b; c = d ?? e; f?.g; h ||= {}; i ** 2; j ? .5 : 1", "ExponentOperator,LogicalAssignment,NullishCoalescing,OptionalChain"},
		{"function* g() { yield 1 }", "Generator"},
		{"async function f() { for await (x of y) ; }", "AsyncAwait,ForAwait,ForOf"},
		{"(stack, value, async) => { if (async) stack.push([async]) }", "Arrow"},
		{"f(...args); class A {}; 10n; new.target; import.meta; import(x)", "ArraySpread,Bigint,Class,DynamicImport,ImportMeta,NewTarget,ObjectRestSpread,RestArgument"},
		{"var [a, b] = c; const {d} = e", "ConstAndLet,Destructuring"},
		{"/* let */ x = fn[k](v) ? [y] : z", ""},
	}
	for _, c := range cases {
		got := strings.Join(scanFeatures(c.src), ",")
		if got != c.want {
			t.Errorf("scanFeatures(%q) = %q, want %q", c.src, got, c.want)
		}
	}
}
