package main

func extractAll() {
	extractCompat()
	extractCacheKey()
	extractOpTable()
}
