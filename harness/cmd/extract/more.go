package main

func extractAll() {
	extractCompat()
	extractCacheKey()
	extractOpTable()
	extractC14Facts()
	extractTargets()
	extractModKeyFacts()
	extractCtxLock()
	extractParWrites()
}
