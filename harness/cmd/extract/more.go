package main

func extractAll() {
	extractCompat()
}
