package main

func extractAll() {}
