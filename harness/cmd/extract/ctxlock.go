package main

// extractCtxLock (work package "ctxlock", C20): the SYNCHRONISATION SKELETON of the build context.
// For every function that takes part in the locking protocol of pkg/api's internalContext (api_impl.go:
// rebuild, Rebuild, activeBuildOrRecentBuildOrRebuild, Watch + its closures, Cancel, Dispose; watcher.go:
// start + its goroutine, stop, setWatchData, tryToFindDirtyPath; serve_other.go: Serve + its closures
// handler.rebuild / handler.stop / the server goroutine, hackListener.Accept, broadcastBuildResult) the ordered
// sequence of
//   Lock / Unlock / defer Unlock of a mutex, WaitGroup Add / Done / Wait, channel send / receive / close,
//   calls of other modelled functions, writes and reads of the shared fields (didDispose, activeBuild,
//   recentBuild, watcher, handler, the two shouldStop flags, build.state), time.Sleep, `go` statements,
//   and the control structure around them (if / else / for / return, conditions classified)
// is written, with source lines, to lean/EsbuildModel/Gen/CtxLockFacts.lean. The Lean theorem
// C20Lock.facts_match_model compares the token lists (without the lines) with the step programs of the
// model (Impl/CtxLock.lean), so moving e.g. `ctx.watcher.stop()` in front of `ctx.mutex.Unlock()` breaks it.
//
// Invoked by extractAll() (more.go must list extractCtxLock()) or stand-alone:  extract <repo> <gen-dir> ctxlock

import (
	"fmt"
	"go/ast"
	"go/token"
	"strings"
)

type clTok struct {
	text string // Lean constructor application, e.g. ".lock .ctx"
	line int
}

type clWalker struct {
	fset *token.FileSet
	toks []clTok
	file string
}

func (w *clWalker) emit(pos token.Pos, text string) {
	w.toks = append(w.toks, clTok{text, w.fset.Position(pos).Line})
}

// clPath renders a selector chain a.b.c as "a.b.c" ("" when it is something else)
func clPath(e ast.Expr) string {
	switch x := e.(type) {
	case *ast.Ident:
		return x.Name
	case *ast.SelectorExpr:
		p := clPath(x.X)
		if p == "" {
			return ""
		}
		return p + "." + x.Sel.Name
	case *ast.ParenExpr:
		return clPath(x.X)
	case *ast.UnaryExpr:
		if x.Op == token.AND {
			return clPath(x.X)
		}
	case *ast.StarExpr:
		return clPath(x.X)
	}
	return ""
}

var clMutexes = map[string]string{"ctx.mutex": ".ctx", "w.mutex": ".watcher", "h.mutex": ".handler", "handler.mutex": ".handler", "hack.mutex": ".hack"}
var clWaitGroups = map[string]string{"build.waitGroup": ".build", "w.stopWaitGroup": ".stop", "handler.serveWaitGroup": ".serve", "hack.waitGroup": ".hack"}

// shared fields whose writes / reads are part of the skeleton
var clFields = map[string]string{
	"ctx.didDispose": ".didDispose", "ctx.activeBuild": ".activeBuild", "ctx.recentBuild": ".recentBuild",
	"ctx.watcher": ".watcher", "ctx.handler": ".handler", "build.state": ".buildState",
	"w.shouldStop": ".wShouldStop", "shouldStop": ".sShouldStop", "handler.activeStreams": ".streams", "h.activeStreams": ".streams",
	"hack.done": ".hackDone", "hack.err": ".hackErr",
}

// calls of modelled functions (by the rendered callee path)
var clCalls = map[string]string{
	"ctx.rebuild": ".rebuild", "ctx.Rebuild": ".Rebuild", "ctx.activeBuildOrRecentBuildOrRebuild": ".abr",
	"rebuildImpl": ".rebuildImpl", "handler.broadcastBuildResult": ".broadcast",
	"watcher.setWatchData": ".setWatchData", "w.setWatchData": ".setWatchData", "w.tryToFindDirtyPath": ".tryToFindDirtyPath",
	"ctx.watcher.start": ".watcherStart", "ctx.watcher.stop": ".watcherStop", "w.rebuild": ".watcherRebuild",
	"ctx.handler.stop": ".handlerStop", "handler.rebuild": ".handlerRebuild", "build.cancel.Cancel": ".cancelFlag",
	"server.Close": ".serverClose", "server.Serve": ".serverServe", "server.ServeTLS": ".serverServe",
	"hack.Listener.Accept": ".listenerAccept", "fn": ".external",
}

func clIsNil(e ast.Expr) bool {
	id, ok := e.(*ast.Ident)
	return ok && (id.Name == "nil" || id.Name == "false")
}

// walkExpr emits the tokens of an expression in evaluation order (operands before the call that uses them);
// function literals are NOT entered (they run elsewhere and are extracted as functions of their own).
func (w *clWalker) walkExpr(e ast.Expr) {
	switch x := e.(type) {
	case nil:
	case *ast.FuncLit:
	case *ast.CallExpr:
		callee := clPath(x.Fun)
		// receiver / function expression first (it may contain calls), then the arguments
		if sel, ok := x.Fun.(*ast.SelectorExpr); ok {
			if _, isCall := sel.X.(*ast.CallExpr); isCall {
				w.walkExpr(sel.X)
			}
		}
		for _, a := range x.Args {
			w.walkExpr(a)
		}
		w.call(x, callee)
	case *ast.UnaryExpr:
		if x.Op == token.ARROW {
			w.walkExpr(x.X)
			w.emit(x.Pos(), ".recv")
			return
		}
		if x.Op == token.AND {
			return // taking an address reads nothing
		}
		w.walkExpr(x.X)
	case *ast.BinaryExpr:
		w.walkExpr(x.X)
		w.walkExpr(x.Y)
	case *ast.ParenExpr:
		w.walkExpr(x.X)
	case *ast.StarExpr:
		w.walkExpr(x.X)
	case *ast.SelectorExpr:
		if f, ok := clFields[clPath(x)]; ok && f != ".buildState" {
			w.emit(x.Pos(), ".get "+f)
			return
		}
		w.walkExpr(x.X)
	case *ast.IndexExpr:
		w.walkExpr(x.X)
		w.walkExpr(x.Index)
	case *ast.SliceExpr:
		w.walkExpr(x.X)
	case *ast.TypeAssertExpr:
		w.walkExpr(x.X)
	case *ast.CompositeLit:
		for _, el := range x.Elts {
			if kv, ok := el.(*ast.KeyValueExpr); ok {
				w.walkExpr(kv.Value)
			} else {
				w.walkExpr(el)
			}
		}
	case *ast.KeyValueExpr:
		w.walkExpr(x.Value)
	}
}

func (w *clWalker) call(x *ast.CallExpr, callee string) {
	if i := strings.LastIndex(callee, "."); i >= 0 {
		recv, method := callee[:i], callee[i+1:]
		if m, ok := clMutexes[recv]; ok && (method == "Lock" || method == "Unlock") {
			w.emit(x.Pos(), map[string]string{"Lock": ".lock ", "Unlock": ".unlock "}[method]+m)
			return
		}
		if strings.HasSuffix(recv, "utex") && (method == "Lock" || method == "Unlock") {
			w.emit(x.Pos(), ".unknown") // a mutex this extractor does not know
			return
		}
		if g, ok := clWaitGroups[recv]; ok && (method == "Add" || method == "Done" || method == "Wait") {
			w.emit(x.Pos(), map[string]string{"Add": ".add ", "Done": ".done ", "Wait": ".wait "}[method]+g)
			return
		}
		if strings.HasSuffix(recv, "aitGroup") && (method == "Add" || method == "Done" || method == "Wait") {
			w.emit(x.Pos(), ".unknown")
			return
		}
	}
	switch callee {
	case "atomic.StoreInt32":
		if len(x.Args) == 2 {
			if f, ok := clFields[clPath(x.Args[0])]; ok {
				w.emit(x.Pos(), ".set "+f)
				return
			}
		}
		w.emit(x.Pos(), ".unknown")
		return
	case "atomic.LoadInt32":
		if len(x.Args) == 1 {
			if f, ok := clFields[clPath(x.Args[0])]; ok {
				w.emit(x.Pos(), ".get "+f)
				return
			}
		}
		w.emit(x.Pos(), ".unknown")
		return
	case "time.Sleep":
		w.emit(x.Pos(), ".sleep")
		return
	case "close":
		w.emit(x.Pos(), ".close")
		return
	}
	if f, ok := clCalls[callee]; ok {
		w.emit(x.Pos(), ".call "+f)
	}
}

// clCond classifies a condition; "" = not one of the known forms
func clCond(e ast.Expr) string {
	switch x := e.(type) {
	case *ast.ParenExpr:
		return clCond(x.X)
	case *ast.SelectorExpr:
		if clPath(x) == "ctx.didDispose" {
			return ".didDispose"
		}
	case *ast.UnaryExpr:
		if x.Op == token.NOT && clPath(x.X) == "hack.done" {
			return ".hackNotDone"
		}
	case *ast.BinaryExpr:
		l := clPath(x.X)
		if call, ok := x.X.(*ast.CallExpr); ok && clPath(call.Fun) == "atomic.LoadInt32" && len(call.Args) == 1 {
			l = "load:" + clPath(call.Args[0])
		}
		r := ""
		if id, ok := x.Y.(*ast.Ident); ok {
			r = id.Name
		} else if bl, ok := x.Y.(*ast.BasicLit); ok {
			r = bl.Value
		} else if p := clPath(x.Y); p != "" {
			r = p
		}
		key := l + " " + x.Op.String() + " " + r
		switch key {
		case "build != nil":
			return ".buildNonNil"
		case "watcher != nil":
			return ".localWatcherNonNil"
		case "handler != nil":
			return ".localHandlerNonNil"
		case "ctx.watcher != nil":
			return ".ctxWatcherNonNil"
		case "ctx.handler != nil":
			return ".ctxHandlerNonNil"
		case "ctx.recentBuild == recentBuild":
			return ".recentIsMine"
		case "load:w.shouldStop == 0":
			return ".wNotStopped"
		case "load:shouldStop != 0":
			return ".sStopped"
		case "hack.err != nil":
			return ".hackErr"
		case "err != http.ErrServerClosed":
			return ".errNotClosed"
		}
	}
	return ""
}

func (w *clWalker) cond(e ast.Expr) string {
	if e == nil {
		return ".other"
	}
	if c := clCond(e); c != "" {
		return c
	}
	w.walkExpr(e)
	return ".other"
}

// plain reports whether toks[from:] consists only of unclassified control structure and returns
func clPlain(toks []clTok) (plain bool, hasRet bool) {
	for _, t := range toks {
		switch t.text {
		case ".ifBegin .other", ".elseBegin", ".ifEnd", ".forBegin .other", ".forEnd", ".maybeRet":
		case ".ret":
			hasRet = true
		default:
			return false, false
		}
		if t.text == ".maybeRet" {
			hasRet = true
		}
	}
	return true, hasRet
}

// collapse replaces an unclassified if / for without any synchronisation inside by nothing, or by one
// `.maybeRet` when it can return; successive `.maybeRet` are merged
func (w *clWalker) collapse(from int, pos token.Pos) {
	plain, hasRet := clPlain(w.toks[from:])
	if !plain {
		return
	}
	w.toks = w.toks[:from]
	if hasRet && !(from > 0 && w.toks[from-1].text == ".maybeRet") {
		w.emit(pos, ".maybeRet")
	}
}

func (w *clWalker) walkStmts(list []ast.Stmt) {
	for _, s := range list {
		w.walkStmt(s)
	}
}

func (w *clWalker) walkStmt(s ast.Stmt) {
	switch x := s.(type) {
	case nil:
	case *ast.BlockStmt:
		w.walkStmts(x.List)
	case *ast.ExprStmt:
		w.walkExpr(x.X)
	case *ast.SendStmt:
		w.walkExpr(x.Value)
		w.emit(x.Pos(), ".send")
	case *ast.AssignStmt:
		for _, r := range x.Rhs {
			w.walkExpr(r)
		}
		for i, l := range x.Lhs {
			if f, ok := clFields[clPath(l)]; ok {
				if len(x.Rhs) == len(x.Lhs) && clIsNil(x.Rhs[i]) {
					w.emit(l.Pos(), ".clr "+f)
				} else {
					w.emit(l.Pos(), ".set "+f)
				}
			}
		}
	case *ast.DeclStmt:
		if gd, ok := x.Decl.(*ast.GenDecl); ok {
			for _, sp := range gd.Specs {
				if vs, ok := sp.(*ast.ValueSpec); ok {
					for _, v := range vs.Values {
						w.walkExpr(v)
					}
				}
			}
		}
	case *ast.DeferStmt:
		callee := clPath(x.Call.Fun)
		if i := strings.LastIndex(callee, "."); i >= 0 && callee[i+1:] == "Unlock" {
			if m, ok := clMutexes[callee[:i]]; ok {
				w.emit(x.Pos(), ".deferUnlock "+m)
				return
			}
		}
		w.emit(x.Pos(), ".unknown")
	case *ast.GoStmt:
		if fl, ok := x.Call.Fun.(*ast.FuncLit); ok {
			w.emit(x.Pos(), ".goBegin")
			w.walkStmts(fl.Body.List)
			w.emit(fl.Body.Rbrace, ".goEnd")
		} else if f, ok := clCalls[clPath(x.Call.Fun)]; ok {
			w.emit(x.Pos(), ".goCall "+f)
		} else {
			w.emit(x.Pos(), ".unknown")
		}
	case *ast.ReturnStmt:
		for _, r := range x.Results {
			if clPath(r) == "build.state" || strings.HasPrefix(clPath(r), "build.state.") {
				w.emit(r.Pos(), ".get .buildState")
			} else {
				w.walkExpr(r)
			}
		}
		w.emit(x.Pos(), ".ret")
	case *ast.IfStmt:
		w.walkStmt(x.Init)
		c := w.cond(x.Cond)
		start := len(w.toks) // tokens of the condition itself stay in front and are never collapsed
		w.emit(x.Pos(), ".ifBegin "+c)
		w.walkStmts(x.Body.List)
		if x.Else != nil {
			w.emit(x.Else.Pos(), ".elseBegin")
			w.walkStmt(x.Else)
		}
		w.emit(x.Body.Rbrace, ".ifEnd")
		if c == ".other" {
			w.collapse(start, x.Pos())
		}
	case *ast.ForStmt:
		w.walkStmt(x.Init)
		c := w.cond(x.Cond)
		start := len(w.toks)
		w.emit(x.Pos(), ".forBegin "+c)
		w.walkStmts(x.Body.List)
		w.walkStmt(x.Post)
		w.emit(x.Body.Rbrace, ".forEnd")
		if c == ".other" {
			w.collapse(start, x.Pos())
		}
	case *ast.RangeStmt:
		w.walkExpr(x.X)
		start := len(w.toks)
		w.emit(x.Pos(), ".forBegin .other")
		w.walkStmts(x.Body.List)
		w.emit(x.Body.Rbrace, ".forEnd")
		w.collapse(start, x.Pos())
	case *ast.SelectStmt, *ast.SwitchStmt, *ast.TypeSwitchStmt, *ast.LabeledStmt:
		w.emit(x.Pos(), ".unknown")
	case *ast.IncDecStmt, *ast.EmptyStmt, *ast.BranchStmt: // break / continue only occur in loops without synchronisation
	default:
		w.emit(s.Pos(), ".unknown")
	}
}

type clFunc struct {
	name string // Lean identifier
	what string // description for the doc comment
	file string
	toks []clTok
}

func clMethod(f *ast.File, recv string, name string) *ast.FuncDecl {
	for _, d := range f.Decls {
		fd, ok := d.(*ast.FuncDecl)
		if !ok || fd.Name.Name != name || fd.Body == nil {
			continue
		}
		if recv == "" && fd.Recv == nil {
			return fd
		}
		if fd.Recv != nil && len(fd.Recv.List) == 1 {
			t := fd.Recv.List[0].Type
			if st, ok := t.(*ast.StarExpr); ok {
				t = st.X
			}
			if id, ok := t.(*ast.Ident); ok && id.Name == recv {
				return fd
			}
		}
	}
	return nil
}

// clClosure finds, inside fd, the function literal that is the value of composite-literal key `key`
// (assign == false) or the right-hand side of the assignment `<assignPath> = func…` (assign == true)
func clClosure(fd *ast.FuncDecl, key string, assign bool) *ast.FuncLit {
	var found *ast.FuncLit
	ast.Inspect(fd.Body, func(n ast.Node) bool {
		if found != nil {
			return false
		}
		switch x := n.(type) {
		case *ast.KeyValueExpr:
			if id, ok := x.Key.(*ast.Ident); ok && !assign && id.Name == key {
				if fl, ok := x.Value.(*ast.FuncLit); ok {
					found = fl
				}
			}
		case *ast.AssignStmt:
			if assign && len(x.Lhs) == 1 && len(x.Rhs) == 1 && clPath(x.Lhs[0]) == key {
				if fl, ok := x.Rhs[0].(*ast.FuncLit); ok {
					found = fl
				}
			}
		}
		return true
	})
	return found
}

func extractCtxLock() {
	type want struct {
		file, recv, fn string // declared function
		closureKey     string // "" = the function itself
		closureAssign  bool
		lean           string
	}
	wants := []want{
		{"pkg/api/api_impl.go", "internalContext", "rebuild", "", false, "rebuild"},
		{"pkg/api/api_impl.go", "internalContext", "activeBuildOrRecentBuildOrRebuild", "", false, "abr"},
		{"pkg/api/api_impl.go", "internalContext", "Rebuild", "", false, "Rebuild"},
		{"pkg/api/api_impl.go", "internalContext", "Watch", "", false, "Watch"},
		{"pkg/api/api_impl.go", "internalContext", "Watch", "rebuild", false, "watcherRebuild"},
		{"pkg/api/api_impl.go", "internalContext", "Cancel", "", false, "Cancel"},
		{"pkg/api/api_impl.go", "internalContext", "Dispose", "", false, "Dispose"},
		{"pkg/api/watcher.go", "watcher", "setWatchData", "", false, "setWatchData"},
		{"pkg/api/watcher.go", "watcher", "start", "", false, "watcherStart"},
		{"pkg/api/watcher.go", "watcher", "stop", "", false, "watcherStop"},
		{"pkg/api/watcher.go", "watcher", "tryToFindDirtyPath", "", false, "tryToFindDirtyPath"},
		{"pkg/api/serve_other.go", "internalContext", "Serve", "", false, "Serve"},
		{"pkg/api/serve_other.go", "internalContext", "Serve", "rebuild", false, "handlerRebuild"},
		{"pkg/api/serve_other.go", "internalContext", "Serve", "handler.stop", true, "handlerStop"},
		{"pkg/api/serve_other.go", "hackListener", "Accept", "", false, "hackAccept"},
		{"pkg/api/serve_other.go", "apiHandler", "broadcastBuildResult", "", false, "broadcast"},
	}
	files := map[string]*ast.File{}
	fsets := map[string]*token.FileSet{}
	var out []clFunc
	for _, wnt := range wants {
		f, ok := files[wnt.file]
		if !ok {
			fsets[wnt.file], f = parseFile(wnt.file)
			files[wnt.file] = f
		}
		if f == nil {
			return
		}
		fd := clMethod(f, wnt.recv, wnt.fn)
		if fd == nil {
			fail("ctxlock: %s: func (%s) %s not found", wnt.file, wnt.recv, wnt.fn)
			return
		}
		body := fd.Body
		what := fmt.Sprintf("func (%s) %s", wnt.recv, wnt.fn)
		if wnt.closureKey != "" {
			fl := clClosure(fd, wnt.closureKey, wnt.closureAssign)
			if fl == nil {
				fail("ctxlock: %s: closure %q not found in %s", wnt.file, wnt.closureKey, wnt.fn)
				return
			}
			body = fl.Body
			what += fmt.Sprintf(", the function literal `%s`", wnt.closureKey)
		}
		w := &clWalker{fset: fsets[wnt.file], file: wnt.file}
		w.walkStmts(body.List)
		out = append(out, clFunc{name: wnt.lean, what: what, file: wnt.file, toks: w.toks})
	}
	var sb strings.Builder
	sb.WriteString(clHeader)
	for _, fn := range out {
		fmt.Fprintf(&sb, "/-- %s: %s -/\ndef %s : List (Tok × Nat) := [", fn.file, fn.what, fn.name)
		for i, t := range fn.toks {
			if i > 0 {
				sb.WriteString(",")
			}
			fmt.Fprintf(&sb, "\n  (%s, %d)", t.text, t.line)
		}
		sb.WriteString("]\n\n")
	}
	sb.WriteString("end EsbuildModel.Gen.CtxLock\n")
	writeIfChanged("CtxLockFacts.lean", sb.String())
}

const clHeader = `-- GENERATED by harness/cmd/extract (ctxlock.go) from pkg/api/api_impl.go, watcher.go, serve_other.go — do not edit
/-! The synchronisation skeleton of the build context: for each function the ordered tokens with their source line. -/
namespace EsbuildModel.Gen.CtxLock

/-- ctx.mutex, watcher.mutex, apiHandler.mutex, hackListener.mutex -/
inductive Mu where
  | ctx | watcher | handler | hack
deriving DecidableEq, Repr

/-- buildInProgress.waitGroup, watcher.stopWaitGroup, apiHandler.serveWaitGroup, hackListener.waitGroup -/
inductive Wg where
  | build | stop | serve | hack
deriving DecidableEq, Repr

/-- shared fields whose accesses are listed -/
inductive Fld where
  | didDispose | activeBuild | recentBuild | watcher | handler | buildState | wShouldStop | sShouldStop | streams | hackDone | hackErr
deriving DecidableEq, Repr

/-- callees that are listed -/
inductive Fn where
  | rebuild | Rebuild | abr | rebuildImpl | broadcast | setWatchData | tryToFindDirtyPath | watcherStart | watcherStop
  | watcherRebuild | handlerStop | handlerRebuild | cancelFlag | serverClose | serverServe | listenerAccept | external
deriving DecidableEq, Repr

/-- classified conditions; every other condition is .other -/
inductive Cnd where
  | didDispose | buildNonNil | localWatcherNonNil | localHandlerNonNil | ctxWatcherNonNil | ctxHandlerNonNil
  | recentIsMine | wNotStopped | sStopped | hackErr | hackNotDone | errNotClosed | other
deriving DecidableEq, Repr

inductive Tok where
  | lock (m : Mu) | unlock (m : Mu) | deferUnlock (m : Mu)
  | add (g : Wg) | done (g : Wg) | wait (g : Wg)
  | call (f : Fn) | goCall (f : Fn)
  | set (f : Fld) | clr (f : Fld) | get (f : Fld)
  | send | recv | close | sleep
  | ifBegin (c : Cnd) | elseBegin | ifEnd
  | forBegin (c : Cnd) | forEnd
  | goBegin | goEnd
  | ret
  | maybeRet   -- an unclassified if / for without synchronisation inside that may return
  | unknown    -- a construct the extractor does not understand: never matches the model
deriving DecidableEq, Repr

`
