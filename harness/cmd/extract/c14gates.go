package main

// 2. feature gates: every reference to a compat.JSFeature constant outside the compat table.
//
// kinds (syntactic role of the reference):
//   has            X.Has(compat.F)                                     — the code branches on "F is unsupported"
//   has-var        v := compat.F (or v = compat.F) and X.Has(v) in the same function
//   has-symbol     X.Has(compat.SymbolFeature(k)): one site per feature SymbolFeature can return
//   mark           markSyntaxFeature(compat.F, r)                      — error / warning when F is unsupported
//   mark-var       v := compat.F … markSyntaxFeature(v, r) in the same function
//   mark-deferred  syntaxFeature{feature: compat.F, …} (reported later by markSyntaxFeature(entry.feature, …))
//   case           case compat.F: (a switch over a feature value, e.g. inside markSyntaxFeature)
//   compare        x == compat.F / x != compat.F
//   implies / implied   arguments of fixInvalidUnsupportedJSFeatureOverrides
//   set            X |= compat.F
//   return         return F (compat.SymbolFeature)
//   unknown:<ctx>  anything else — the Lean side refuses these, so a new usage pattern has to be reviewed

import (
	"fmt"
	"go/ast"
	"go/token"
	"path"
	"sort"
	"strings"
)

type gateSite struct {
	feature, file, fn, kind string
	pos                     token.Pos
	order                   int
}

func funcDeclName(fd *ast.FuncDecl) string {
	name := fd.Name.Name
	if fd.Recv != nil && len(fd.Recv.List) > 0 {
		t := fd.Recv.List[0].Type
		if st, ok := t.(*ast.StarExpr); ok {
			t = st.X
		}
		if ix, ok := t.(*ast.IndexExpr); ok { // generic receiver
			t = ix.X
		}
		if id, ok := t.(*ast.Ident); ok {
			name = id.Name + "." + name
		}
	}
	return name
}

func calleeName(c *ast.CallExpr) string {
	switch f := c.Fun.(type) {
	case *ast.Ident:
		return f.Name
	case *ast.SelectorExpr:
		return f.Sel.Name
	}
	return "?"
}

func argIndex(c *ast.CallExpr, n ast.Node) int {
	for i, a := range c.Args {
		if a == n {
			return i
		}
	}
	return -1
}

// usesOfVar: how a local variable holding a feature is used inside fn: passed to .Has / markSyntaxFeature
func usesOfVar(fn ast.Node, name string) (has, mark bool) {
	ast.Inspect(fn, func(n ast.Node) bool {
		c, ok := n.(*ast.CallExpr)
		if !ok {
			return true
		}
		for i, a := range c.Args {
			id, ok := a.(*ast.Ident)
			if !ok || id.Name != name {
				continue
			}
			switch calleeName(c) {
			case "Has":
				has = true
			case "markSyntaxFeature":
				if i == 0 {
					mark = true
				}
			}
		}
		return true
	})
	return
}

func classifyRef(stack []ast.Node, node ast.Node, fn ast.Node, deferredOK bool) string {
	// stack[len-1] is the parent of node
	i := len(stack) - 1
	child := node
	for i >= 0 {
		if p, ok := stack[i].(*ast.ParenExpr); ok {
			child = p
			i--
			continue
		}
		break
	}
	if i < 0 {
		return "unknown:top"
	}
	switch p := stack[i].(type) {
	case *ast.CallExpr:
		idx := argIndex(p, child)
		switch calleeName(p) {
		case "Has":
			if idx == 0 && len(p.Args) == 1 {
				return "has"
			}
		case "markSyntaxFeature":
			if idx == 0 {
				return "mark"
			}
		case "fixInvalidUnsupportedJSFeatureOverrides":
			if idx == 1 {
				return "implies"
			}
			if idx == 2 {
				return "implied"
			}
		}
		return "unknown:arg-of-" + calleeName(p)
	case *ast.BinaryExpr:
		switch p.Op {
		case token.EQL, token.NEQ:
			return "compare"
		case token.OR:
			// climb to the top of the |-tree
			j := i
			var top ast.Node = p
			for j-1 >= 0 {
				if b, ok := stack[j-1].(*ast.BinaryExpr); ok && b.Op == token.OR {
					top = b
					j--
					continue
				}
				if pe, ok := stack[j-1].(*ast.ParenExpr); ok {
					top = pe
					j--
					continue
				}
				break
			}
			if j-1 >= 0 {
				switch q := stack[j-1].(type) {
				case *ast.CallExpr:
					if calleeName(q) == "fixInvalidUnsupportedJSFeatureOverrides" && argIndex(q, top) == 2 {
						return "implied"
					}
					return "unknown:or-arg-of-" + calleeName(q)
				case *ast.AssignStmt:
					if q.Tok == token.OR_ASSIGN {
						return "set"
					}
				}
			}
			return "unknown:or"
		}
		return "unknown:binary" + p.Op.String()
	case *ast.CaseClause:
		for _, e := range p.List {
			if e == child {
				return "case"
			}
		}
		return "unknown:case-body"
	case *ast.AssignStmt:
		for k, r := range p.Rhs {
			if r != child {
				continue
			}
			if p.Tok == token.OR_ASSIGN {
				return "set"
			}
			if (p.Tok == token.DEFINE || p.Tok == token.ASSIGN) && k < len(p.Lhs) {
				if id, ok := p.Lhs[k].(*ast.Ident); ok && fn != nil {
					has, mark := usesOfVar(fn, id.Name)
					switch {
					case has && !mark:
						return "has-var"
					case mark && !has:
						return "mark-var"
					}
					return "unknown:var-" + id.Name
				}
			}
			return "unknown:assign" + p.Tok.String()
		}
		return "unknown:assign-lhs"
	case *ast.KeyValueExpr:
		if p.Value == child && i-1 >= 0 {
			if cl, ok := stack[i-1].(*ast.CompositeLit); ok {
				if key, ok := p.Key.(*ast.Ident); ok && key.Name == "feature" {
					if t, ok := cl.Type.(*ast.Ident); ok && t.Name == "syntaxFeature" && deferredOK {
						return "mark-deferred"
					}
				}
			}
		}
		return "unknown:key-value"
	case *ast.ReturnStmt:
		return "return"
	}
	return fmt.Sprintf("unknown:%T", stack[i])
}

// the reviewed kinds, in the order Impl/FeatureGates.lean expects: tests, marks, others
var knownGateKinds = []string{"has", "has-var", "has-symbol", "mark", "mark-var", "mark-deferred", "case", "compare", "implies", "implied", "set", "return"}

func extractFeatureGates(featureList []string, features map[string]bool) {
	featureIndex := map[string]int{}
	for i, f := range featureList {
		featureIndex[f] = i
	}
	files := goSourceFiles("internal", "pkg", "cmd")
	var sites []gateSite
	type symCall struct {
		file, fn string
		pos      token.Pos
		order    int
	}
	var symCalls []symCall
	var symbolFeatures []string
	order := 0

	// `markSyntaxFeature(x.feature, …)` must exist in js_parser for composite literals to count as deferred marks
	deferredOK := false
	parsed := map[string]*ast.File{}
	for _, rel := range files {
		if strings.HasPrefix(rel, "internal/compat/") && path.Base(rel) != "compat.go" && path.Base(rel) != "js_table.go" {
			continue
		}
		_, f := parseFile(rel)
		if f == nil {
			return
		}
		parsed[rel] = f
		if strings.HasPrefix(rel, "internal/js_parser/") {
			ast.Inspect(f, func(n ast.Node) bool {
				if c, ok := n.(*ast.CallExpr); ok && calleeName(c) == "markSyntaxFeature" && len(c.Args) > 0 {
					if sel, ok := c.Args[0].(*ast.SelectorExpr); ok && sel.Sel.Name == "feature" {
						deferredOK = true
					}
				}
				return true
			})
		}
	}

	for _, rel := range files {
		f := parsed[rel]
		if f == nil {
			continue
		}
		inCompat := strings.HasPrefix(rel, "internal/compat/")
		local := compatLocalName(f)
		if !inCompat && local == "" {
			continue
		}
		for _, d := range f.Decls {
			var fnName string
			var fnNode ast.Node
			switch x := d.(type) {
			case *ast.FuncDecl:
				if x.Body == nil {
					continue
				}
				fnName, fnNode = funcDeclName(x), x
			case *ast.GenDecl:
				if inCompat || x.Tok == token.IMPORT {
					continue // the table, the name maps and the const block itself
				}
				fnName, fnNode = "<package level>", nil
			default:
				continue
			}
			var stack []ast.Node
			ast.Inspect(d, func(n ast.Node) bool {
				if n == nil {
					stack = stack[:len(stack)-1]
					return false
				}
				feature := ""
				if inCompat {
					if id, ok := n.(*ast.Ident); ok && features[id.Name] {
						// not the selector part of something else
						if len(stack) > 0 {
							if sel, ok := stack[len(stack)-1].(*ast.SelectorExpr); ok && sel.Sel == id {
								id = nil
							}
						}
						if id != nil {
							feature = id.Name
						}
					}
				} else if sel, ok := n.(*ast.SelectorExpr); ok {
					if nme, ok := featureSel(sel, local, features); ok {
						feature = nme
					}
				}
				if feature != "" {
					order++
					kind := classifyRef(stack, n, fnNode, deferredOK)
					sites = append(sites, gateSite{feature, rel, fnName, kind, n.Pos(), order})
					if inCompat && fnName == "SymbolFeature" && kind == "return" {
						symbolFeatures = append(symbolFeatures, feature)
					}
				}
				// X.Has(compat.SymbolFeature(k))
				if c, ok := n.(*ast.CallExpr); ok && calleeName(c) == "Has" && len(c.Args) == 1 {
					if inner, ok := c.Args[0].(*ast.CallExpr); ok && calleeName(inner) == "SymbolFeature" {
						order++
						symCalls = append(symCalls, symCall{rel, fnName, n.Pos(), order})
					}
				}
				stack = append(stack, n)
				return true
			})
		}
	}
	sort.Strings(symbolFeatures)
	for _, sc := range symCalls {
		for _, ft := range symbolFeatures {
			sites = append(sites, gateSite{ft, sc.file, sc.fn, "has-symbol", sc.pos, sc.order})
		}
	}
	// grouped by feature (bit order), then (file, source) order: the Lean side counts the groups in one pass
	sort.SliceStable(sites, func(i, j int) bool {
		if a, b := featureIndex[sites[i].feature], featureIndex[sites[j].feature]; a != b {
			return a < b
		}
		if sites[i].file != sites[j].file {
			return sites[i].file < sites[j].file
		}
		return sites[i].order < sites[j].order
	})
	if len(sites) == 0 {
		fail("feature gates: no reference to a compat.JSFeature constant found")
		return
	}

	sw, ok := extractMarkSwitch(features)
	if !ok {
		return
	}

	// kinds as small numbers (the Lean kernel compares numbers fast, strings slowly); unknown kinds are appended
	kindNames := append([]string{}, knownGateKinds...)
	kindIndex := map[string]int{}
	for i, k := range kindNames {
		kindIndex[k] = i
	}
	for _, s := range sites {
		if _, ok := kindIndex[s.kind]; !ok {
			kindIndex[s.kind] = len(kindNames)
			kindNames = append(kindNames, s.kind)
		}
	}
	var sb strings.Builder
	sb.WriteString("-- GENERATED by harness/cmd/extract (c14gates.go) from internal/, pkg/, cmd/ of the esbuild tree — do not edit\n")
	sb.WriteString("namespace EsbuildModel.Gen.FeatureGates\n\n")
	sb.WriteString("/-- `fi`: index of `feature` in `Gen.compatFeatures`; `ki`: index of `kind` in `kindNames` -/\n")
	sb.WriteString("structure Site where\n  fi : Nat\n  feature : String\n  file : String\n  fn : String\n  ki : Nat\n  kind : String\nderiving DecidableEq, Repr\n\n")
	fmt.Fprintf(&sb, "def kindNames : List String := %s\n\n", leanQList(kindNames))
	sb.WriteString("/-- every reference to a `compat.JSFeature` constant outside the table, grouped by feature (bit order), then in (file, source) order -/\ndef sites : List Site := [\n")
	for i, s := range sites {
		comma := ","
		if i == len(sites)-1 {
			comma = ""
		}
		fmt.Fprintf(&sb, "  ⟨%d, %s, %s, %s, %d, %s⟩%s\n", featureIndex[s.feature], leanStr(s.feature), leanStr(s.file), leanStr(s.fn), kindIndex[s.kind], leanStr(s.kind), comma)
	}
	sb.WriteString("]\n\n")
	fmt.Fprintf(&sb, "/-- the features `compat.SymbolFeature` can return (sorted) -/\ndef symbolFeatures : List String := %s\n\n", leanQList(symbolFeatures))
	sb.WriteString(sw)
	sb.WriteString("\nend EsbuildModel.Gen.FeatureGates\n")
	writeIfChanged("FeatureGates.lean", sb.String())
}

// extractMarkSwitch: what parser.markSyntaxFeature does for each feature once it is unsupported
func extractMarkSwitch(features map[string]bool) (string, bool) {
	const rel = "internal/js_parser/js_parser_lower.go"
	fset, f := parseFile(rel)
	if f == nil {
		return "", false
	}
	local := compatLocalName(f)
	fd := findFunc(f, "markSyntaxFeature")
	if fd == nil || local == "" || len(fd.Type.Params.List) == 0 || len(fd.Type.Params.List[0].Names) == 0 {
		fail("%s: markSyntaxFeature not found", rel)
		return "", false
	}
	param := fd.Type.Params.List[0].Names[0].Name

	// the early exit: the first if statement of the body, its condition printed, must end in a return
	guard := ""
	var sw *ast.SwitchStmt
	swIndex := -1
	for i, st := range fd.Body.List {
		switch x := st.(type) {
		case *ast.IfStmt:
			if guard == "" && sw == nil {
				if n := len(x.Body.List); n > 0 && x.Else == nil {
					if _, ok := x.Body.List[n-1].(*ast.ReturnStmt); ok {
						guard = nodeText(fset, x.Cond)
					}
				}
			}
		case *ast.SwitchStmt:
			if id, ok := x.Tag.(*ast.Ident); ok && id.Name == param && sw == nil {
				sw, swIndex = x, i
			}
		}
	}
	if sw == nil || guard == "" {
		fail("%s: markSyntaxFeature: early-exit guard or `switch %s` not found", rel, param)
		return "", false
	}
	// what follows the switch (reached by the clauses that only set a name)
	after := "silent"
	for _, st := range fd.Body.List[swIndex+1:] {
		if k := logCallKind(st); k != "" {
			after = k
			break
		}
	}
	classify := func(body []ast.Stmt) string {
		kind := ""
		returns := false
		for _, st := range body {
			if k := logCallKind(st); k != "" && kind == "" {
				kind = k
			}
			if _, ok := st.(*ast.ReturnStmt); ok {
				returns = true
			}
		}
		if kind == "warn" && !mentions(body, "logger", "Warning") {
			kind = "below-warning"
		}
		switch {
		case kind != "" && returns:
			return kind
		case kind == "" && !returns:
			if after == "error" {
				return "error-not-lowered"
			}
			return after
		case kind == "" && returns:
			return "silent"
		}
		return "unknown"
	}
	var rows []string
	def := ""
	for _, cc := range sw.Body.List {
		clause := cc.(*ast.CaseClause)
		h := classify(clause.Body)
		if clause.List == nil {
			def = h
			continue
		}
		for _, e := range clause.List {
			name, ok := featureSel(e, local, features)
			if !ok {
				fail("%s:%d: markSyntaxFeature: case label is not a compat.JSFeature constant", rel, fset.Position(e.Pos()).Line)
				return "", false
			}
			rows = append(rows, fmt.Sprintf("  (%s, %s)", leanStr(name), leanStr(h)))
		}
	}
	if def == "" {
		// no default clause: falls to the statements after the switch
		if after == "error" {
			def = "error-not-lowered"
		} else {
			def = after
		}
	}
	var sb strings.Builder
	fmt.Fprintf(&sb, "/-- `parser.markSyntaxFeature(%s, r)` returns without a message when this holds -/\ndef markGuard : String := %s\n", param, leanStr(guard))
	sb.WriteString("/-- otherwise, per `case`: \"error\" (AddError + return), \"warn\" (AddID with kind Warning/Debug + return),\n\"error-not-lowered\" (only names the syntax; the AddError after the switch reports \"Transforming … is not supported yet\"),\n\"silent\" (returns without a message) -/\n")
	sb.WriteString("def markSwitch : List (String × String) := [\n" + strings.Join(rows, ",\n") + "\n]\n")
	fmt.Fprintf(&sb, "/-- the `default:` clause -/\ndef markDefault : String := %s\n", leanStr(def))
	return sb.String(), true
}

// logCallKind: "error" for a statement that calls p.log.AddError, "warn" for p.log.AddID, "" otherwise
func logCallKind(st ast.Stmt) string {
	kind := ""
	ast.Inspect(st, func(n ast.Node) bool {
		if _, ok := n.(*ast.FuncLit); ok {
			return false
		}
		if c, ok := n.(*ast.CallExpr); ok && kind == "" {
			if sel, ok := c.Fun.(*ast.SelectorExpr); ok {
				root, p := selectorPath(sel)
				if root != "" && len(p) >= 2 && p[len(p)-2] == "log" {
					switch sel.Sel.Name {
					case "AddError", "AddErrorWithNotes":
						kind = "error"
					case "AddID", "AddIDWithNotes":
						kind = "warn"
					}
				}
			}
		}
		return true
	})
	return kind
}

// mentions: does any statement contain the selector pkg.name
func mentions(body []ast.Stmt, pkg, name string) bool {
	found := false
	for _, st := range body {
		ast.Inspect(st, func(n ast.Node) bool {
			if sel, ok := n.(*ast.SelectorExpr); ok && sel.Sel.Name == name {
				if id, ok := sel.X.(*ast.Ident); ok && id.Name == pkg {
					found = true
				}
			}
			return true
		})
	}
	return found
}
