// parwrites: type-checked (go/ast + go/types) extractor for property C08 (determinism under every goroutine
// schedule). For every `go` statement of the build pipeline's packages it lists: position, enclosing function, the loop
// the goroutine is started from, which names are the goroutine's OWN (its parameters / per-iteration variables), every
// WRITE to memory that is shared with the forking function or with sibling goroutines, classified
//
//	slot         the written location is reached through a slice/array index by an own variable, or through an own
//	             pointer parameter whose argument is such a slot (`&x[i]`, `x[i].p`)
//	underMutex   textually between M.Lock() and M.Unlock() (or after M.Lock(); defer M.Unlock()) — M is recorded
//	atomic       a sync/atomic call on shared memory
//	channelSend  `ch <- v` on a shared channel
//	waitGroup    Add/Done on a shared sync.WaitGroup
//	localOnly    (summary entry) the body also assigns to memory that only this goroutine can reach
//	firstWriterWins  `if x == nil { x = e }` (also "", 0, len(x) == 0, !x) on shared memory outside the worker's own slot
//	sharedLoopVar    the closure uses a loop variable of the forking loop while go.mod's language version is < 1.22
//	OTHER        everything else: must be reviewed one by one (Impl/ParWritesReview.lean)
//
// and the READS of a slot array (one that this fork's workers write) through an index that is not the worker's own.
// The analysis is per goroutine body; for `go f(args)` with a named function of the same package the body of f is analysed
// with its parameters as own variables. Callees of the body are NOT followed: instead the names of all functions called with
// a shared receiver or a shared pointer-like argument are listed (`calls`), so that a new mutating call changes the fact.
//
// Output: lean/EsbuildModel/Gen/ParWrites.lean. Invoked from extractAll() (more.go) as part of
// `.build/bin/extract <repo> <lean/EsbuildModel/Gen>`.
package main

import (
	"bytes"
	"crypto/sha256"
	"encoding/hex"
	"fmt"
	"go/ast"
	"go/build"
	"go/importer"
	"go/parser"
	"go/printer"
	"go/token"
	"go/types"
	"io/ioutil"
	"os"
	"path/filepath"
	"regexp"
	"sort"
	"strings"
)

// the packages whose `go` statements are listed (relative to the repository root; found by the extractor, the list of
// DIRECTORIES is the only thing fixed here). pkg/api: serve_*.go and watcher.go are excluded (not part of a build).
var pwDirs = []string{"internal/linker", "internal/bundler", "internal/js_printer", "internal/css_printer", "internal/resolver",
	"internal/cache", "internal/graph", "internal/renamer", "internal/js_parser", "internal/css_parser", "internal/runtime", "pkg/api"}
var pwSkipFiles = map[string]bool{"pkg/api/serve_other.go": true, "pkg/api/serve_wasm.go": true, "pkg/api/watcher.go": true}

const pwVersion = "3"
const pwModule = "github.com/evanw/esbuild/"

type pwPkg struct {
	path  string
	dir   string
	files []*ast.File
	info  *types.Info
	tpkg  *types.Package
}

type pwLoader struct {
	fset *token.FileSet
	pkgs map[string]*pwPkg
	std  types.ImporterFrom
	ctx  build.Context
	fake map[string]*types.Package
	// packages in which type errors are fatal (the analysed ones)
	strict map[string]bool
}

func (l *pwLoader) Import(path string) (*types.Package, error) { return l.ImportFrom(path, "", 0) }

func (l *pwLoader) ImportFrom(path, dir string, mode types.ImportMode) (*types.Package, error) {
	if strings.HasPrefix(path, pwModule) {
		p, err := l.load(path)
		if err != nil {
			return nil, err
		}
		return p.tpkg, nil
	}
	if path == "unsafe" {
		return types.Unsafe, nil
	}
	if !strings.Contains(strings.SplitN(path, "/", 2)[0], ".") {
		return l.std.ImportFrom(path, dir, mode) // standard library, type-checked from GOROOT/src
	}
	// a third-party module (golang.org/x/sys/unix: terminal and file-identity system calls in internal/fs and
	// internal/logger only): replaced by an empty package; type errors are tolerated in packages that are not analysed
	if p, ok := l.fake[path]; ok {
		return p, nil
	}
	p := types.NewPackage(path, path[strings.LastIndex(path, "/")+1:])
	p.MarkComplete()
	l.fake[path] = p
	return p, nil
}

func (l *pwLoader) load(path string) (*pwPkg, error) {
	if p, ok := l.pkgs[path]; ok {
		if p == nil {
			return nil, fmt.Errorf("import cycle through %s", path)
		}
		return p, nil
	}
	l.pkgs[path] = nil
	dir := filepath.Join(repo, strings.TrimPrefix(path, pwModule))
	bp, err := l.ctx.ImportDir(dir, 0)
	if err != nil {
		return nil, err
	}
	p := &pwPkg{path: path, dir: dir}
	for _, name := range bp.GoFiles {
		f, err := parser.ParseFile(l.fset, filepath.Join(dir, name), nil, 0)
		if err != nil {
			return nil, err
		}
		p.files = append(p.files, f)
	}
	p.info = &types.Info{Defs: map[*ast.Ident]types.Object{}, Uses: map[*ast.Ident]types.Object{},
		Types: map[ast.Expr]types.TypeAndValue{}, Implicits: map[ast.Node]types.Object{}, Selections: map[*ast.SelectorExpr]*types.Selection{}}
	var firstErr error
	cfg := types.Config{Importer: l, Error: func(e error) {
		if firstErr == nil {
			firstErr = e
		}
	}}
	p.tpkg, _ = cfg.Check(path, l.fset, p.files, p.info)
	if firstErr != nil && l.strict[path] {
		return nil, fmt.Errorf("type-check %s: %v", path, firstErr)
	}
	l.pkgs[path] = p
	return p, nil
}

// language version of the module: before go 1.22 a `for` loop variable is ONE variable shared by all iterations
func pwLoopVarPerIteration() bool {
	data, err := ioutil.ReadFile(filepath.Join(repo, "go.mod"))
	if err != nil {
		fail("parwrites: cannot read go.mod: %v", err)
		return false
	}
	m := regexp.MustCompile(`(?m)^go\s+(\d+)\.(\d+)`).FindStringSubmatch(string(data))
	if m == nil {
		return false
	}
	var maj, min int
	fmt.Sscanf(m[1], "%d", &maj)
	fmt.Sscanf(m[2], "%d", &min)
	return maj > 1 || (maj == 1 && min >= 22)
}

type pwWrite struct{ cls, target, detail string }

type pwSite struct {
	file, fn, callee, loop string
	ord, line              int
	own                    []string
	writes                 []pwWrite
	reads                  []string
	calls                  []string
}

func pwText(fset *token.FileSet, n ast.Node) string {
	var b bytes.Buffer
	printer.Fprint(&b, fset, n)
	return strings.Join(strings.Fields(b.String()), " ")
}

// ---------------------------------------------------------------------------------------------------------------------
// the analysis of one goroutine

type pwDef struct {
	rhs  ast.Expr
	kind int // 0 plain value, 1 element of rhs (range value), 2 key of rhs (range key), 3 unknown (multi-value call etc.)
}

type pwRes struct {
	text      string
	sharedLoc bool   // the lvalue lives in memory that other goroutines can reach
	taint     bool   // the value may point into such memory
	viaCall   string // the value came out of a call
	slotBase  string // array expression of the first slice/array step indexed by an own variable
	slotIdx   string
	field     string // first field selected after the slot step
	mapStep   bool   // last shared step is a map index
	loopVar   bool   // goes through a loop variable of the forking loop that is NOT per-iteration
}

type pwAn struct {
	l       *pwLoader
	p       *pwPkg
	perIter bool
	// the forking context
	enclBody   *ast.BlockStmt
	loop       ast.Stmt
	loopKeys   map[types.Object]string // loop variables → "key" / "value"
	iterLocals map[types.Object]bool   // variables declared inside the loop body (fresh per iteration)
	callerDefs map[types.Object][]pwDef
	// the goroutine
	gStart, gEnd token.Pos
	body         *ast.BlockStmt
	params       map[types.Object]ast.Expr // own parameter → argument of the go statement
	recvShared   map[types.Object]bool     // for `go f(...)`: receiver of f
	defs         map[types.Object][]pwDef
	visiting     map[types.Object]bool
}

func (a *pwAn) obj(id *ast.Ident) types.Object {
	if o := a.p.info.Uses[id]; o != nil {
		return o
	}
	return a.p.info.Defs[id]
}

func (a *pwAn) typeOf(e ast.Expr) types.Type {
	if tv, ok := a.p.info.Types[e]; ok {
		return tv.Type
	}
	if id, ok := e.(*ast.Ident); ok {
		if o := a.obj(id); o != nil {
			return o.Type()
		}
	}
	return nil
}

func pwRefLike(t types.Type) bool {
	if t == nil {
		return true
	}
	switch u := t.Underlying().(type) {
	case *types.Pointer, *types.Slice, *types.Map, *types.Chan, *types.Interface, *types.Signature:
		return true
	case *types.Struct:
		for i := 0; i < u.NumFields(); i++ {
			if pwRefLike(u.Field(i).Type()) {
				return true
			}
		}
		return false
	case *types.Array:
		return pwRefLike(u.Elem())
	case *types.Basic:
		return u.Kind() == types.UnsafePointer
	}
	return true
}

func pwCollectDefs(info *types.Info, root ast.Node, into map[types.Object][]pwDef) {
	add := func(id *ast.Ident, d pwDef) {
		if id == nil || id.Name == "_" {
			return
		}
		o := info.Defs[id]
		if o == nil {
			o = info.Uses[id]
		}
		if o != nil {
			into[o] = append(into[o], d)
		}
	}
	ast.Inspect(root, func(n ast.Node) bool {
		switch x := n.(type) {
		case *ast.AssignStmt:
			if x.Tok != token.DEFINE && x.Tok != token.ASSIGN {
				return true
			}
			for i, lhs := range x.Lhs {
				id, ok := lhs.(*ast.Ident)
				if !ok {
					continue
				}
				if len(x.Lhs) == len(x.Rhs) {
					add(id, pwDef{rhs: x.Rhs[i]})
				} else if _, isTA := x.Rhs[0].(*ast.TypeAssertExpr); isTA && i == 0 {
					add(id, pwDef{rhs: x.Rhs[0]})
				} else if _, isIx := x.Rhs[0].(*ast.IndexExpr); isIx && i == 0 {
					add(id, pwDef{rhs: x.Rhs[0]})
				} else if i == 0 || len(x.Rhs) != 1 {
					add(id, pwDef{rhs: x.Rhs[0], kind: 3})
				} else if _, isCall := x.Rhs[0].(*ast.CallExpr); isCall {
					add(id, pwDef{rhs: x.Rhs[0], kind: 3})
				}
			}
		case *ast.ValueSpec:
			for i, id := range x.Names {
				if len(x.Values) == len(x.Names) {
					add(id, pwDef{rhs: x.Values[i]})
				} else if len(x.Values) > 0 {
					add(id, pwDef{rhs: x.Values[0], kind: 3})
				}
			}
		case *ast.RangeStmt:
			if id, ok := x.Key.(*ast.Ident); ok {
				add(id, pwDef{rhs: x.X, kind: 2})
			}
			if id, ok := x.Value.(*ast.Ident); ok {
				add(id, pwDef{rhs: x.X, kind: 1})
			}
		case *ast.TypeSwitchStmt:
			// switch v := x.(type): one implicit object per clause, each an alias of x
			if as, ok := x.Assign.(*ast.AssignStmt); ok && len(as.Rhs) == 1 {
				if ta, ok := as.Rhs[0].(*ast.TypeAssertExpr); ok {
					for _, cc := range x.Body.List {
						if o := info.Implicits[cc]; o != nil {
							into[o] = append(into[o], pwDef{rhs: ta.X})
						}
					}
				}
			}
		}
		return true
	})
}

func (a *pwAn) inG(pos token.Pos) bool { return pos >= a.gStart && pos < a.gEnd }

// is this expression one of the worker's OWN index values?  (describes how it is bound)
func (a *pwAn) ownIndex(e ast.Expr, inGoroutine bool) (string, bool) {
	for {
		if p, ok := e.(*ast.ParenExpr); ok {
			e = p.X
		} else if c, ok := e.(*ast.CallExpr); ok && len(c.Args) == 1 && a.p.info.Types[c.Fun].IsType() {
			e = c.Args[0] // conversion int(i)
		} else {
			break
		}
	}
	id, ok := e.(*ast.Ident)
	if !ok {
		return "", false
	}
	o := a.obj(id)
	if o == nil {
		return "", false
	}
	if inGoroutine {
		if arg, ok := a.params[o]; ok {
			if d, ok := a.ownIndex(arg, false); ok {
				return id.Name + "←" + d, true
			}
			return "", false
		}
		if a.inG(o.Pos()) {
			return "", false // a goroutine-local variable is not unique to the worker
		}
	}
	if k, ok := a.loopKeys[o]; ok {
		if inGoroutine && !a.perIter {
			return "", false // captured loop variable shared by all iterations (go < 1.22)
		}
		return id.Name + "@" + k, true
	}
	if a.iterLocals[o] {
		// a per-iteration local: own if it is (a copy of) a loop variable
		for _, d := range a.callerDefs[o] {
			if d.kind == 0 {
				if s, ok := a.ownIndex(d.rhs, false); ok {
					return id.Name + "=" + s, true
				}
			}
		}
	}
	return "", false
}

func (a *pwAn) resolve(e ast.Expr, inGoroutine bool) pwRes {
	switch x := e.(type) {
	case *ast.ParenExpr:
		return a.resolve(x.X, inGoroutine)
	case *ast.StarExpr:
		r := a.resolve(x.X, inGoroutine)
		r.sharedLoc = r.taint
		return r
	case *ast.UnaryExpr:
		if x.Op == token.AND {
			r := a.resolve(x.X, inGoroutine)
			r.taint = r.sharedLoc
			r.sharedLoc = false
			return r
		}
		if x.Op == token.ARROW { // <-ch : a received value may point anywhere the sender could reach
			r := a.resolve(x.X, inGoroutine)
			return pwRes{text: "<-" + r.text, taint: r.taint, viaCall: "<-" + r.text}
		}
		return pwRes{text: pwText(a.l.fset, e)}
	case *ast.TypeAssertExpr:
		r := a.resolve(x.X, inGoroutine)
		if x.Type != nil {
			r.text += ".(" + pwText(a.l.fset, x.Type) + ")"
		}
		r.sharedLoc = false
		return r
	case *ast.SliceExpr:
		r := a.resolve(x.X, inGoroutine)
		r.text += "[:]"
		return r
	case *ast.SelectorExpr:
		if id, ok := x.X.(*ast.Ident); ok {
			if _, isPkg := a.obj(id).(*types.PkgName); isPkg {
				o := a.p.info.Uses[x.Sel]
				if _, isVar := o.(*types.Var); isVar {
					return pwRes{text: id.Name + "." + x.Sel.Name, sharedLoc: true, taint: true}
				}
				return pwRes{text: id.Name + "." + x.Sel.Name}
			}
		}
		r := a.resolve(x.X, inGoroutine)
		if sel := a.p.info.Selections[x]; sel != nil && sel.Kind() != types.FieldVal {
			// method value: not a memory location
			r.text += "." + x.Sel.Name
			r.sharedLoc = false
			return r
		}
		if t := a.typeOf(x.X); t != nil {
			if _, isPtr := t.Underlying().(*types.Pointer); isPtr {
				r.sharedLoc = r.taint
			}
		}
		// (embedded pointer fields on the way are ignored: esbuild's shared structures do not use them)
		r.text += "." + x.Sel.Name
		if r.slotBase != "" && r.field == "" {
			r.field = x.Sel.Name
		}
		return r
	case *ast.IndexExpr:
		r := a.resolve(x.X, inGoroutine)
		t := a.typeOf(x.X)
		idxText := pwText(a.l.fset, x.Index)
		isMap := false
		if t != nil {
			switch u := t.Underlying().(type) {
			case *types.Map:
				isMap = true
				r.sharedLoc = r.taint
			case *types.Slice:
				r.sharedLoc = r.taint
			case *types.Pointer:
				r.sharedLoc = r.taint
				_ = u
			case *types.Array:
				// element of an array value: same location class as the array
			default:
				// generic function instantiation etc.
				return pwRes{text: pwText(a.l.fset, e)}
			}
		}
		base := r.text
		if !isMap && r.slotBase == "" {
			if d, ok := a.ownIndex(x.Index, inGoroutine); ok {
				r.slotBase = base
				r.slotIdx = d
				r.field = ""
			}
		}
		r.mapStep = isMap && r.sharedLoc
		r.text = base + "[" + idxText + "]"
		return r
	case *ast.CallExpr:
		if id, ok := x.Fun.(*ast.Ident); ok {
			if _, isBuiltin := a.obj(id).(*types.Builtin); isBuiltin {
				switch id.Name {
				case "append":
					if len(x.Args) > 0 {
						r := a.resolve(x.Args[0], inGoroutine)
						for _, arg := range x.Args[1:] {
							if a.resolve(arg, inGoroutine).taint && pwRefLike(a.typeOf(arg)) {
								r.taint = true
							}
						}
						r.sharedLoc = false
						return r
					}
				case "make", "new", "len", "cap", "min", "max":
					return pwRes{text: "‹fresh›"}
				}
			}
		}
		if a.p.info.Types[x.Fun].IsType() && len(x.Args) == 1 { // conversion
			r := a.resolve(x.Args[0], inGoroutine)
			r.sharedLoc = false
			return r
		}
		name := pwText(a.l.fset, x.Fun)
		// a call result may point into anything the callee could reach
		taint := false
		if sel, ok := x.Fun.(*ast.SelectorExpr); ok {
			if a.resolve(sel.X, inGoroutine).taint {
				taint = true
			}
		}
		for _, arg := range x.Args {
			if pwRefLike(a.typeOf(arg)) && a.resolve(arg, inGoroutine).taint {
				taint = true
			}
		}
		return pwRes{text: name + "(…)", taint: taint && pwRefLike(a.typeOf(e)), viaCall: name}
	case *ast.CompositeLit:
		// a fresh object; it may hold pointers into shared memory
		r := pwRes{text: "‹fresh›"}
		for _, el := range x.Elts {
			if kv, ok := el.(*ast.KeyValueExpr); ok {
				el = kv.Value
			}
			if pwRefLike(a.typeOf(el)) && a.resolve(el, inGoroutine).taint {
				r.taint = true
			}
		}
		return r
	case *ast.BasicLit, *ast.FuncLit, *ast.BinaryExpr:
		return pwRes{text: "‹fresh›"}
	case *ast.Ident:
		return a.resolveIdent(x, inGoroutine)
	}
	return pwRes{text: pwText(a.l.fset, e)}
}

func (a *pwAn) resolveIdent(id *ast.Ident, inGoroutine bool) pwRes {
	o := a.obj(id)
	v, isVar := o.(*types.Var)
	if !isVar {
		return pwRes{text: id.Name}
	}
	if v.Parent() == a.p.tpkg.Scope() { // package-level variable
		return pwRes{text: id.Name, sharedLoc: true, taint: true}
	}
	if !inGoroutine {
		// in the forking function every variable is reachable by whoever gets its address; substitute simple aliases
		r := pwRes{text: id.Name, sharedLoc: true, taint: true}
		if ds := a.callerDefs[o]; len(ds) == 1 && ds[0].kind == 0 && !a.visiting[o] {
			a.visiting[o] = true
			d := a.resolve(ds[0].rhs, false)
			delete(a.visiting, o)
			if d.text != "‹fresh›" && d.viaCall == "" && pwRefLike(v.Type()) {
				d.sharedLoc = true
				d.taint = true
				return d
			}
			if d.text == "‹fresh›" && pwRefLike(v.Type()) {
				if a.iterLocals[o] {
					r.text = id.Name + "‹fresh per iteration›"
				} else {
					r.text = id.Name + "‹one object for all iterations›"
				}
			}
		}
		if k, ok := a.loopKeys[o]; ok {
			r.text = id.Name + "@" + k
		}
		return r
	}
	if arg, ok := a.params[o]; ok {
		// an own parameter: a private copy of the argument
		ar := a.resolve(arg, false)
		text := id.Name + "«" + ar.text + "»"
		if ar.text == id.Name {
			text = id.Name
		}
		if !pwRefLike(v.Type()) {
			return pwRes{text: id.Name}
		}
		r := pwRes{text: text, taint: ar.taint, slotBase: ar.slotBase, slotIdx: ar.slotIdx, field: ar.field}
		if strings.HasSuffix(ar.text, "‹fresh per iteration›") && r.slotBase == "" {
			r.slotBase, r.slotIdx = "‹per-iteration object›", ar.text
		}
		return r
	}
	if a.recvShared[o] {
		return pwRes{text: id.Name, sharedLoc: false, taint: true}
	}
	if !a.inG(v.Pos()) {
		// captured from the forking function
		r := pwRes{text: id.Name, sharedLoc: true, taint: true}
		if _, isLoopVar := a.loopKeys[o]; isLoopVar && !a.perIter {
			r.loopVar = true
		}
		if a.iterLocals[o] {
			r.text = id.Name + "‹per-iteration›"
		}
		return r
	}
	// a variable of the goroutine itself
	if a.visiting[o] {
		return pwRes{text: id.Name}
	}
	a.visiting[o] = true
	defer delete(a.visiting, o)
	ds := a.defs[o]
	out := pwRes{text: id.Name}
	if len(ds) == 0 && pwRefLike(v.Type()) {
		// no visible definition (parameter of a nested function literal, …): assume it may point anywhere
		return pwRes{text: id.Name + "‹unknown origin›", taint: true, viaCall: "?"}
	}
	first := true
	for _, d := range ds {
		var r pwRes
		switch d.kind {
		case 0:
			r = a.resolve(d.rhs, true)
			r.sharedLoc = false
		case 1:
			x := a.resolve(d.rhs, true)
			r = pwRes{text: x.text + "[*]", taint: x.taint, viaCall: x.viaCall}
		case 2:
			continue
		default:
			x := a.resolve(d.rhs, true)
			r = pwRes{text: x.text, taint: x.taint, viaCall: x.viaCall}
		}
		if !pwRefLike(v.Type()) {
			r.taint = false
		}
		if first || (r.taint && !out.taint) {
			t := out.taint
			out = r
			out.taint = out.taint || t
			first = false
		} else if r.taint {
			out.taint = true
		}
	}
	if out.text == "‹fresh›" || !out.taint {
		out.text = id.Name
		out.slotBase, out.slotIdx, out.field = "", "", ""
	}
	return out
}

// ---------------------------------------------------------------------------------------------------------------------
// collecting the facts of one `go` statement

func pwIsSyncType(t types.Type, name string) bool {
	if t == nil {
		return false
	}
	if p, ok := t.Underlying().(*types.Pointer); ok {
		t = p.Elem()
	}
	n, ok := t.(*types.Named)
	return ok && n.Obj().Pkg() != nil && n.Obj().Pkg().Path() == "sync" && (n.Obj().Name() == name || (name == "Mutex" && n.Obj().Name() == "RWMutex"))
}

type pwLockEvent struct {
	pos      token.Pos
	mutex    string
	lock     bool
	deferred bool
}

func (a *pwAn) calleeName(c *ast.CallExpr) string {
	switch f := c.Fun.(type) {
	case *ast.Ident:
		return f.Name
	case *ast.SelectorExpr:
		if sel := a.p.info.Selections[f]; sel != nil {
			t := sel.Recv()
			if p, ok := t.(*types.Pointer); ok {
				t = p.Elem()
			}
			if n, ok := t.(*types.Named); ok {
				return n.Obj().Name() + "." + f.Sel.Name
			}
			return pwText(a.l.fset, f)
		}
		return pwText(a.l.fset, f) // pkg.Func
	}
	return "‹func value›"
}

func (a *pwAn) calleeOrLit(c *ast.CallExpr) string {
	if _, ok := c.Fun.(*ast.FuncLit); ok {
		return "func literal"
	}
	return a.calleeName(c)
}

func (a *pwAn) collect(site *pwSite) {
	var locks []pwLockEvent
	hasLocal := false
	type rawWrite struct {
		pos token.Pos
		r   pwRes
		how string
	}
	var raws []rawWrite
	calls := map[string]bool{}
	addWrite := func(pos token.Pos, lhs ast.Expr, how string) {
		if id, ok := lhs.(*ast.Ident); ok && id.Name == "_" {
			return
		}
		r := a.resolve(lhs, true)
		if !r.sharedLoc {
			hasLocal = true
			return
		}
		raws = append(raws, rawWrite{pos, r, how})
	}
	deferDepth := map[ast.Node]bool{}
	// `if x == nil { x = e }` (also "", 0, false, !x, len(x) == 0): first writer wins
	guarded := map[token.Pos]string{}
	ast.Inspect(a.body, func(n ast.Node) bool {
		is, ok := n.(*ast.IfStmt)
		if !ok {
			return true
		}
		var tested []ast.Expr
		var visit func(c ast.Expr)
		visit = func(c ast.Expr) {
			switch c := c.(type) {
			case *ast.ParenExpr:
				visit(c.X)
			case *ast.BinaryExpr:
				if c.Op == token.LAND || c.Op == token.LOR {
					visit(c.X)
					visit(c.Y)
				} else if c.Op == token.EQL {
					tested = append(tested, c.X, c.Y)
				}
			case *ast.UnaryExpr:
				if c.Op == token.NOT {
					tested = append(tested, c.X)
				}
			}
		}
		visit(is.Cond)
		for i, t := range tested {
			if c, ok := t.(*ast.CallExpr); ok && len(c.Args) == 1 {
				if id, ok := c.Fun.(*ast.Ident); ok && id.Name == "len" {
					tested[i] = c.Args[0]
				}
			}
		}
		ast.Inspect(is.Body, func(m ast.Node) bool {
			if as, ok := m.(*ast.AssignStmt); ok {
				for _, lhs := range as.Lhs {
					for _, t := range tested {
						if pwText(a.l.fset, lhs) == pwText(a.l.fset, t) {
							guarded[as.Pos()] = pwText(a.l.fset, is.Cond)
						}
					}
				}
			}
			return true
		})
		return true
	})
	ast.Inspect(a.body, func(n ast.Node) bool {
		switch x := n.(type) {
		case *ast.GoStmt:
			// a goroutine forked by this goroutine is a site of its own
			calls["go "+a.calleeOrLit(x.Call)] = true
			return false
		case *ast.DeferStmt:
			deferDepth[x.Call] = true
		case *ast.AssignStmt:
			for i, lhs := range x.Lhs {
				if x.Tok == token.DEFINE {
					if id, ok := lhs.(*ast.Ident); ok && a.p.info.Defs[id] != nil {
						hasLocal = true
						continue
					}
				}
				how := "assign"
				if i < len(x.Rhs) && len(x.Lhs) == len(x.Rhs) {
					if c, ok := x.Rhs[i].(*ast.CallExpr); ok {
						if id, ok := c.Fun.(*ast.Ident); ok && id.Name == "append" {
							how = "append"
						}
					}
				}
				if x.Tok != token.ASSIGN && x.Tok != token.DEFINE {
					how = "op-assign " + x.Tok.String()
				}
				addWrite(x.Pos(), lhs, how)
			}
		case *ast.IncDecStmt:
			addWrite(x.Pos(), x.X, "incdec")
		case *ast.RangeStmt:
			if x.Tok == token.ASSIGN {
				if x.Key != nil {
					addWrite(x.Pos(), x.Key, "range-assign")
				}
				if x.Value != nil {
					addWrite(x.Pos(), x.Value, "range-assign")
				}
			}
		case *ast.SendStmt:
			r := a.resolve(x.Chan, true)
			if r.taint {
				site.writes = append(site.writes, pwWrite{"channelSend", r.text, ""})
			}
		case *ast.CallExpr:
			if a.p.info.Types[x.Fun].IsType() {
				return true
			}
			if id, ok := x.Fun.(*ast.Ident); ok {
				if _, isBuiltin := a.obj(id).(*types.Builtin); isBuiltin {
					if (id.Name == "delete" || id.Name == "copy" || id.Name == "clear") && len(x.Args) > 0 {
						r := a.resolve(x.Args[0], true)
						if r.taint {
							r.sharedLoc = true
							r.mapStep = id.Name == "delete"
							r.text = id.Name + "(" + r.text + ", …)"
							raws = append(raws, rawWrite{x.Pos(), r, id.Name})
						}
					}
					return true
				}
			}
			if sel, ok := x.Fun.(*ast.SelectorExpr); ok {
				rt := a.typeOf(sel.X)
				if pwIsSyncType(rt, "Mutex") {
					m := a.resolve(sel.X, true).text
					switch sel.Sel.Name {
					case "Lock", "RLock":
						locks = append(locks, pwLockEvent{x.Pos(), m, true, false})
					case "Unlock", "RUnlock":
						locks = append(locks, pwLockEvent{x.Pos(), m, false, deferDepth[x]})
					}
					return true
				}
				if pwIsSyncType(rt, "WaitGroup") {
					r := a.resolve(sel.X, true)
					if r.taint || r.sharedLoc {
						site.writes = append(site.writes, pwWrite{"waitGroup", r.text, sel.Sel.Name})
					}
					return true
				}
				if id, ok := sel.X.(*ast.Ident); ok {
					if pn, ok := a.obj(id).(*types.PkgName); ok && pn.Imported().Path() == "sync/atomic" && len(x.Args) > 0 {
						r := a.resolve(x.Args[0], true)
						site.writes = append(site.writes, pwWrite{"atomic", r.text, sel.Sel.Name})
						return true
					}
				}
			}
			// any other call: listed when it can reach shared memory through its receiver or a pointer-like argument
			shared := false
			if sel, ok := x.Fun.(*ast.SelectorExpr); ok {
				if s := a.p.info.Selections[sel]; s != nil {
					r := a.resolve(sel.X, true)
					if r.taint || r.sharedLoc {
						shared = true
					}
				}
			}
			for _, arg := range x.Args {
				if pwRefLike(a.typeOf(arg)) {
					if r := a.resolve(arg, true); r.taint {
						shared = true
					}
				}
			}
			if shared {
				calls[a.calleeName(x)] = true
			}
		}
		return true
	})
	sort.Slice(locks, func(i, j int) bool { return locks[i].pos < locks[j].pos })
	heldAt := func(pos token.Pos) string {
		held := map[string]bool{}
		var order []string
		for _, ev := range locks {
			if ev.pos > pos {
				break
			}
			if ev.lock {
				if !held[ev.mutex] {
					order = append(order, ev.mutex)
				}
				held[ev.mutex] = true
			} else if !ev.deferred {
				held[ev.mutex] = false
			}
		}
		var out []string
		for _, m := range order {
			if held[m] {
				out = append(out, m)
			}
		}
		return strings.Join(out, "+")
	}
	slotBases := map[string]bool{}
	for _, w := range raws {
		r := w.r
		detail := w.how
		if g, ok := guarded[w.pos]; ok && r.slotBase != "" {
			detail = "only if " + g + "; " + detail // lazy initialisation inside the worker's own slot
		} else if ok {
			d := "only if " + g + "; " + detail
			if m := heldAt(w.pos); m != "" {
				d += "; under " + m
			}
			site.writes = append(site.writes, pwWrite{"firstWriterWins", r.text, d})
			continue
		}
		switch {
		case r.loopVar:
			site.writes = append(site.writes, pwWrite{"sharedLoopVar", r.text, detail + "; through a loop variable shared by all iterations"})
		case heldAt(w.pos) != "":
			site.writes = append(site.writes, pwWrite{"underMutex", r.text, heldAt(w.pos)})
		case r.slotBase != "":
			if r.mapStep {
				detail += "; map store"
			}
			site.writes = append(site.writes, pwWrite{"slot", r.text, "slot of " + r.slotBase + " by " + r.slotIdx + "; " + detail})
			slotBases[r.slotBase] = true
		default:
			if r.viaCall != "" {
				detail += "; through the result of " + r.viaCall
			}
			if r.mapStep {
				detail += "; map store"
			}
			if r.slotBase != "" {
				detail += "; inside slot of " + r.slotBase + " by " + r.slotIdx
				slotBases[r.slotBase] = true
			}
			site.writes = append(site.writes, pwWrite{"OTHER", r.text, detail})
		}
	}
	if hasLocal {
		site.writes = append(site.writes, pwWrite{"localOnly", "*", ""})
	}
	// any use of a loop variable of the forking loop inside the closure, when loop variables are not per-iteration
	if !a.perIter {
		ast.Inspect(a.body, func(n ast.Node) bool {
			if id, ok := n.(*ast.Ident); ok {
				if o := a.p.info.Uses[id]; o != nil {
					if _, isLoopVar := a.loopKeys[o]; isLoopVar {
						site.writes = append(site.writes, pwWrite{"sharedLoopVar", id.Name, "the closure uses the forking loop's variable, which is one variable for all iterations (go < 1.22)"})
					}
				}
			}
			return true
		})
	}
	// reads of a slot array through a foreign index
	reads := map[string]bool{}
	var stack []ast.Node
	ast.Inspect(a.body, func(n ast.Node) bool {
		if n == nil {
			stack = stack[:len(stack)-1]
			return true
		}
		if _, nested := n.(*ast.GoStmt); nested {
			return false
		}
		stack = append(stack, n)
		e, ok := n.(ast.Expr)
		if !ok {
			return true
		}
		switch e.(type) {
		case *ast.Ident, *ast.SelectorExpr:
		default:
			return true
		}
		if len(stack) >= 2 {
			if ps, ok := stack[len(stack)-2].(*ast.SelectorExpr); ok && ps.Sel == n {
				return true
			}
		}
		r := a.resolve(e, true)
		if !slotBases[r.text] || !(r.taint || r.sharedLoc) {
			return true
		}
		// climb: index → selectors
		top := ast.Node(e)
		k := len(stack) - 2
		ownIdx := false
		whole := true
		for k >= 0 {
			switch p := stack[k].(type) {
			case *ast.IndexExpr:
				if p.X == top {
					if _, ok := a.ownIndex(p.Index, true); ok {
						ownIdx = true
					}
					whole = false
					top = p
					k--
					continue
				}
			case *ast.SelectorExpr:
				if p.X == top && !whole {
					top = p
					k--
					continue
				}
			case *ast.ParenExpr, *ast.StarExpr:
				top = p
				k--
				continue
			case *ast.UnaryExpr:
				if p.Op == token.AND {
					top = p
					k--
					continue
				}
			case *ast.CallExpr:
				if id, ok := p.Fun.(*ast.Ident); ok && whole && (id.Name == "len" || id.Name == "cap") {
					return true
				}
			}
			break
		}
		if ownIdx {
			return true
		}
		if whole {
			ctx := "use"
			if k >= 0 {
				if rs, ok := stack[k].(*ast.RangeStmt); ok && rs.X == top {
					ctx = "range"
				}
			}
			reads[ctx+" of the whole "+r.text] = true
		} else {
			reads[pwText(a.l.fset, top)] = true
		}
		return true
	})
	for r := range reads {
		site.reads = append(site.reads, r)
	}
	sort.Strings(site.reads)
	for c := range calls {
		site.calls = append(site.calls, c)
	}
	sort.Strings(site.calls)
	// canonical: sort + dedupe writes
	sort.Slice(site.writes, func(i, j int) bool {
		x, y := site.writes[i], site.writes[j]
		if x.cls != y.cls {
			return x.cls < y.cls
		}
		if x.target != y.target {
			return x.target < y.target
		}
		return x.detail < y.detail
	})
	var ws []pwWrite
	for i, w := range site.writes {
		if i == 0 || w != site.writes[i-1] {
			ws = append(ws, w)
		}
	}
	site.writes = ws
}

// ---------------------------------------------------------------------------------------------------------------------
// finding the `go` statements

func pwFuncName(fset *token.FileSet, fd *ast.FuncDecl) string {
	name := fd.Name.Name
	if fd.Recv != nil && len(fd.Recv.List) > 0 {
		name = strings.TrimPrefix(pwText(fset, fd.Recv.List[0].Type), "*") + "." + name
	}
	return name
}

func (l *pwLoader) sitesOf(p *pwPkg, rel string, perIter bool) []pwSite {
	var out []pwSite
	decls := map[types.Object]*ast.FuncDecl{}
	for _, f := range p.files {
		for _, d := range f.Decls {
			if fd, ok := d.(*ast.FuncDecl); ok && fd.Body != nil {
				decls[p.info.Defs[fd.Name]] = fd
			}
		}
	}
	for _, f := range p.files {
		file := rel + "/" + filepath.Base(l.fset.Position(f.Pos()).Filename)
		if pwSkipFiles[file] {
			continue
		}
		for _, d := range f.Decls {
			fd, ok := d.(*ast.FuncDecl)
			if !ok || fd.Body == nil {
				continue
			}
			ord := 0
			var stack []ast.Node
			ast.Inspect(fd.Body, func(n ast.Node) bool {
				if n == nil {
					stack = stack[:len(stack)-1]
					return true
				}
				stack = append(stack, n)
				gs, ok := n.(*ast.GoStmt)
				if !ok {
					return true
				}
				site := pwSite{file: file, fn: pwFuncName(l.fset, fd), ord: ord, line: l.fset.Position(gs.Pos()).Line}
				ord++
				a := &pwAn{l: l, p: p, perIter: perIter, enclBody: fd.Body, loopKeys: map[types.Object]string{}, iterLocals: map[types.Object]bool{},
					callerDefs: map[types.Object][]pwDef{}, params: map[types.Object]ast.Expr{}, recvShared: map[types.Object]bool{},
					defs: map[types.Object][]pwDef{}, visiting: map[types.Object]bool{}}
				pwCollectDefs(p.info, fd.Body, a.callerDefs)
				// nearest enclosing loop (inside the same function literal nesting or not: recorded either way)
				for k := len(stack) - 2; k >= 0 && a.loop == nil; k-- {
					switch lp := stack[k].(type) {
					case *ast.RangeStmt:
						a.loop = lp
						desc := "range " + pwText(l.fset, lp.X)
						if id, ok := lp.Key.(*ast.Ident); ok && id.Name != "_" {
							a.loopKeys[a.obj(id)] = "key"
							if t := a.typeOf(lp.X); t != nil {
								if _, isMap := t.Underlying().(*types.Map); isMap {
									a.loopKeys[a.obj(id)] = "mapkey"
								}
								if _, isChan := t.Underlying().(*types.Chan); isChan {
									a.loopKeys[a.obj(id)] = "value"
								}
							}
							desc += " key " + id.Name
						}
						if id, ok := lp.Value.(*ast.Ident); ok && id.Name != "_" {
							a.loopKeys[a.obj(id)] = "value"
							desc += " value " + id.Name
						}
						site.loop = desc
						ast.Inspect(lp.Body, func(m ast.Node) bool {
							if id, ok := m.(*ast.Ident); ok {
								if o := p.info.Defs[id]; o != nil && m.Pos() < gs.Pos() {
									a.iterLocals[o] = true
								}
							}
							return true
						})
					case *ast.ForStmt:
						a.loop = lp
						desc := "for"
						if as, ok := lp.Init.(*ast.AssignStmt); ok && as.Tok == token.DEFINE {
							for _, lhs := range as.Lhs {
								if id, ok := lhs.(*ast.Ident); ok {
									a.loopKeys[a.obj(id)] = "key"
									desc += " " + id.Name
								}
							}
						}
						if lp.Cond != nil {
							desc += "; " + pwText(l.fset, lp.Cond)
						}
						site.loop = desc
						ast.Inspect(lp.Body, func(m ast.Node) bool {
							if id, ok := m.(*ast.Ident); ok {
								if o := p.info.Defs[id]; o != nil && m.Pos() < gs.Pos() {
									a.iterLocals[o] = true
								}
							}
							return true
						})
					}
				}
				// nested loops: a loop variable of an OUTER loop is also a per-iteration value ("outer")
				var ftype *ast.FuncType
				switch fun := gs.Call.Fun.(type) {
				case *ast.FuncLit:
					a.body, ftype = fun.Body, fun.Type
					a.gStart, a.gEnd = fun.Pos(), fun.End()
				default:
					// go f(args) / go x.m(args): analyse the declared body when it is in this package
					var o types.Object
					switch c := fun.(type) {
					case *ast.Ident:
						o = a.obj(c)
					case *ast.SelectorExpr:
						o = a.obj(c.Sel)
					}
					callee := decls[o]
					site.callee = pwText(l.fset, gs.Call.Fun)
					if callee == nil {
						site.writes = []pwWrite{{"OTHER", site.callee, "goroutine runs a function value / a function of another package: body not analysed"}}
						// the arguments still tell what it can reach
						for _, arg := range gs.Call.Args {
							r := a.resolve(arg, false)
							if pwRefLike(a.typeOf(arg)) {
								site.own = append(site.own, "arg "+r.text)
							}
						}
						out = append(out, site)
						return true
					}
					a.body, ftype = callee.Body, callee.Type
					a.gStart, a.gEnd = callee.Pos(), callee.End()
					if callee.Recv != nil && len(callee.Recv.List) > 0 && len(callee.Recv.List[0].Names) > 0 {
						if sel, ok := fun.(*ast.SelectorExpr); ok {
							a.params[p.info.Defs[callee.Recv.List[0].Names[0]]] = sel.X
						}
					}
				}
				pwCollectDefs(p.info, a.body, a.defs)
				argi := 0
				for _, fld := range ftype.Params.List {
					for _, nm := range fld.Names {
						if argi < len(gs.Call.Args) {
							arg := gs.Call.Args[argi]
							a.params[p.info.Defs[nm]] = arg
							desc := nm.Name + "←"
							if d, ok := a.ownIndex(arg, false); ok {
								desc += d
							} else {
								desc += a.resolve(arg, false).text
							}
							site.own = append(site.own, desc)
						}
						argi++
					}
				}
				a.collect(&site)
				out = append(out, site)
				return true
			})
		}
	}
	return out
}

func pwQ(x string) string {
	return "\"" + strings.ReplaceAll(strings.ReplaceAll(x, "\\", "\\\\"), "\"", "\\\"") + "\""
}

func pwQList(xs []string) string {
	qs := make([]string, len(xs))
	for i, x := range xs {
		qs[i] = pwQ(x)
	}
	return "[" + strings.Join(qs, ", ") + "]"
}

// sha256 of go.mod and of every non-test .go file under internal/ and pkg/: the extraction (type-checking esbuild and the
// standard library from source takes a while) is skipped when the generated file was made from the same inputs
func pwInputsHash() string {
	h := sha256.New()
	var files []string
	for _, top := range []string{"internal", "pkg"} {
		filepath.Walk(filepath.Join(repo, top), func(path string, info os.FileInfo, err error) error {
			if err == nil && !info.IsDir() && strings.HasSuffix(path, ".go") && !strings.HasSuffix(path, "_test.go") {
				files = append(files, path)
			}
			return nil
		})
	}
	sort.Strings(files)
	files = append(files, filepath.Join(repo, "go.mod"))
	for _, f := range files {
		data, err := ioutil.ReadFile(f)
		if err != nil {
			continue
		}
		rel, _ := filepath.Rel(repo, f)
		fmt.Fprintf(h, "%s %d\n", rel, len(data))
		h.Write(data)
	}
	return hex.EncodeToString(h.Sum(nil))
}

func extractParWrites() {
	inputs := pwInputsHash()
	marker := "-- inputs-sha256: " + inputs + " extractor-version: " + pwVersion + "\n"
	if old, err := ioutil.ReadFile(filepath.Join(outDir, "ParWrites.lean")); err == nil && strings.HasPrefix(string(old), marker) {
		return
	}
	ctx := build.Default
	ctx.CgoEnabled = false
	build.Default.CgoEnabled = false // the source importer uses build.Default
	fset := token.NewFileSet()
	std, _ := importer.ForCompiler(fset, "source", nil).(types.ImporterFrom)
	if std == nil {
		fail("parwrites: no source importer")
		return
	}
	l := &pwLoader{fset: fset, pkgs: map[string]*pwPkg{}, std: std, ctx: ctx, fake: map[string]*types.Package{}, strict: map[string]bool{}}
	for _, dir := range pwDirs {
		l.strict[pwModule+dir] = true
	}
	perIter := pwLoopVarPerIteration()
	var sites []pwSite
	for _, dir := range pwDirs {
		p, err := l.load(pwModule + dir)
		if err != nil {
			fail("parwrites: %v", err)
			return
		}
		sites = append(sites, l.sitesOf(p, dir, perIter)...)
	}
	sort.SliceStable(sites, func(i, j int) bool {
		if sites[i].file != sites[j].file {
			return sites[i].file < sites[j].file
		}
		return sites[i].line < sites[j].line
	})
	var sb strings.Builder
	sb.WriteString(marker)
	sb.WriteString("/- GENERATED by harness/cmd/extract (parwrites.go) from the type-checked source of /repo — do not edit.\n")
	sb.WriteString("   Every `go` statement of " + strings.Join(pwDirs, ", ") + "\n   (without pkg/api serve_*.go and watcher.go) with the writes its body makes to shared memory. -/\n")
	sb.WriteString("namespace EsbuildModel.Gen.ParWrites\n\n")
	sb.WriteString("structure Write where\n  cls : String\n  target : String\n  detail : String\nderiving DecidableEq, Repr\n\n")
	sb.WriteString("structure Site where\n  file : String\n  fn : String\n  ord : Nat\n  callee : String\n  loop : String\n  own : List String\n  writes : List Write\n  needs : List String\n  reads : List String\n  calls : List String\nderiving DecidableEq, Repr\n\n")
	fmt.Fprintf(&sb, "/-- `go` directive of go.mod is ≥ 1.22 (a `for` loop variable is a fresh variable in every iteration) -/\ndef loopVarPerIteration : Bool := %v\n\n", perIter)
	sb.WriteString("/-- source lines (information only; not part of the reviewed facts) -/\ndef lines : List (String × Nat) := [")
	for i, s := range sites {
		if i > 0 {
			sb.WriteString(", ")
		}
		fmt.Fprintf(&sb, "(%s, %d)", pwQ(s.file), s.line)
	}
	sb.WriteString("]\n\n")
	var names, fww, slv []string
	for i, s := range sites {
		name := fmt.Sprintf("site%02d", i)
		names = append(names, name)
		fmt.Fprintf(&sb, "/-- %s:%d -/\ndef %s : Site := {\n  file := %s, fn := %s, ord := %d, callee := %s,\n  loop := %s,\n  own := %s,\n  writes := [", s.file, s.line, name,
			pwQ(s.file), pwQ(s.fn), s.ord, pwQ(s.callee), pwQ(s.loop), pwQList(s.own))
		for k, w := range s.writes {
			if k > 0 {
				sb.WriteString(",")
			}
			fmt.Fprintf(&sb, "\n    ⟨%s, %s, %s⟩", pwQ(w.cls), pwQ(w.target), pwQ(w.detail))
		}
		// what a reviewer has to justify: every write outside slot / waitGroup / localOnly, every foreign read, the callees
		var needs []string
		for _, w := range s.writes {
			switch w.cls {
			case "slot", "waitGroup", "localOnly":
			default:
				needs = append(needs, w.target)
				if w.cls == "firstWriterWins" {
					fww = append(fww, "("+pwQ(s.fn)+", "+pwQ(w.target)+")")
				}
				if w.cls == "sharedLoopVar" {
					slv = append(slv, "("+pwQ(s.fn)+", "+pwQ(w.target)+")")
				}
			}
		}
		for _, r := range s.reads {
			needs = append(needs, "read "+r)
		}
		if len(s.calls) > 0 {
			needs = append(needs, "calls")
		}
		fmt.Fprintf(&sb, "],\n  needs := %s,\n  reads := %s,\n  calls := %s }\n\n", pwQList(needs), pwQList(s.reads), pwQList(s.calls))
	}
	sb.WriteString("def sites : List Site := [" + strings.Join(names, ", ") + "]\n\n")
	sb.WriteString("/-- (function, target) of every write of class firstWriterWins -/\ndef firstWriterWins : List (String × String) := [" + strings.Join(fww, ", ") + "]\n\n")
	sb.WriteString("/-- (function, variable) of every use of a loop variable that is shared by all iterations -/\ndef sharedLoopVarUses : List (String × String) := [" + strings.Join(slv, ", ") + "]\n\nend EsbuildModel.Gen.ParWrites\n")
	writeIfChanged("ParWrites.lean", sb.String())
}
