package main

// extractModKeyFacts (work package "fscache", C09): reads `modKeySafetyGap` from internal/fs/fs.go and, from
// internal/fs/modkey_unix.go and internal/fs/modkey_other.go, the conditions under which `modKey` answers
// `modKeyUnusable` (the zero-mtime rule and the too-new rule, with the constant and the `time` units inlined as
// numbers), the order of the checks and the fields of the returned key. Writes Gen/ModKeyFacts.lean in the
// expression language of Impl/ModKeyExpr.lean; Props/C09ModKey.lean gives the conditions their meaning in
// nanoseconds. Anything the translation does not understand is a failure (a broken tie), never a guess.

import (
	"bytes"
	"fmt"
	"go/ast"
	"go/printer"
	"go/token"
	"strconv"
	"strings"
)

type mkFile struct {
	rel       string
	fset      *token.FileSet
	gap       int64
	locals    map[string]ast.Expr // name := expr (single assignment)
	mtimeVar  string              // the local that holds info.ModTime()
	nowVar    string              // the local that holds unix.TimeToTimespec(time.Now())
	unusable  []string            // translated conditions of `return ModKey{}, modKeyUnusable`, in source order
	unusableS []string            // their source text
	order     []string            // what the function does, in order
	fields    [][2]string         // fields of the final key
	ok        bool
}

func mkSrc(fset *token.FileSet, n ast.Node) string {
	var b bytes.Buffer
	printer.Fprint(&b, fset, n)
	return strings.Join(strings.Fields(b.String()), " ")
}

var mkTimeUnits = map[string]int64{"Nanosecond": 1, "Microsecond": 1000, "Millisecond": 1000000, "Second": 1000000000,
	"Minute": 60000000000, "Hour": 3600000000000}

func (m *mkFile) bad(n ast.Node, why string) string {
	fail("%s:%d: modkey extractor: %s: %s", m.rel, m.fset.Position(n.Pos()).Line, why, mkSrc(m.fset, n))
	m.ok = false
	return "(.lit 0)"
}

// expr translates an arithmetic / time expression into E
func (m *mkFile) expr(e ast.Expr) string {
	switch x := e.(type) {
	case *ast.ParenExpr:
		return m.expr(x.X)
	case *ast.BasicLit:
		if x.Kind == token.INT {
			if v, err := strconv.ParseInt(x.Value, 0, 64); err == nil {
				return fmt.Sprintf("(.lit %d)", v)
			}
		}
		return m.bad(e, "unsupported literal")
	case *ast.Ident:
		switch {
		case x.Name == "modKeySafetyGap":
			return fmt.Sprintf("(.lit %d)", m.gap)
		case x.Name == "zeroTime":
			return "(.var .zeroTime)"
		case x.Name == m.mtimeVar && m.mtimeVar != "":
			return "(.var .mtime)"
		}
		if def, ok := m.locals[x.Name]; ok {
			return m.expr(def)
		}
		return m.bad(e, "unknown identifier")
	case *ast.SelectorExpr:
		s := mkSrc(m.fset, x)
		switch s {
		case "stat.Mtim.Sec":
			return "(.var .statSec)"
		case "stat.Mtim.Nsec":
			return "(.var .statNsec)"
		}
		if m.nowVar != "" && s == m.nowVar+".Sec" {
			return "(.var .nowSec)"
		}
		if m.nowVar != "" && s == m.nowVar+".Nsec" {
			return "(.var .nowNsec)"
		}
		if id, ok := x.X.(*ast.Ident); ok && id.Name == "time" {
			if u, ok := mkTimeUnits[x.Sel.Name]; ok {
				return fmt.Sprintf("(.lit %d)", u)
			}
		}
		return m.bad(e, "unknown selector")
	case *ast.BinaryExpr:
		switch x.Op {
		case token.ADD:
			return fmt.Sprintf("(.add %s %s)", m.expr(x.X), m.expr(x.Y))
		case token.MUL:
			return fmt.Sprintf("(.mul %s %s)", m.expr(x.X), m.expr(x.Y))
		}
		return m.bad(e, "unsupported arithmetic operator")
	case *ast.CallExpr:
		s := mkSrc(m.fset, x)
		if s == "time.Now()" {
			return "(.var .now)"
		}
		if id, ok := x.Fun.(*ast.Ident); ok && len(x.Args) == 1 && (id.Name == "int64" || id.Name == "int" || id.Name == "time.Duration") {
			return m.expr(x.Args[0])
		}
		if sel, ok := x.Fun.(*ast.SelectorExpr); ok {
			switch {
			case sel.Sel.Name == "Add" && len(x.Args) == 1:
				return fmt.Sprintf("(.add %s %s)", m.expr(sel.X), m.expr(x.Args[0]))
			case sel.Sel.Name == "Unix" && len(x.Args) == 0:
				return fmt.Sprintf("(.unixSec %s)", m.expr(sel.X))
			}
		}
		return m.bad(e, "unsupported call")
	}
	return m.bad(e, "unsupported expression")
}

// cond translates a boolean expression into C
func (m *mkFile) cond(e ast.Expr) string {
	switch x := e.(type) {
	case *ast.ParenExpr:
		return m.cond(x.X)
	case *ast.UnaryExpr:
		if x.Op == token.NOT {
			return fmt.Sprintf("(.not %s)", m.cond(x.X))
		}
	case *ast.BinaryExpr:
		ops := map[token.Token]string{token.GTR: "gt", token.LSS: "lt", token.GEQ: "ge", token.LEQ: "le", token.EQL: "eq", token.NEQ: "ne"}
		switch x.Op {
		case token.LAND:
			return fmt.Sprintf("(.and %s %s)", m.cond(x.X), m.cond(x.Y))
		case token.LOR:
			return fmt.Sprintf("(.or %s %s)", m.cond(x.X), m.cond(x.Y))
		}
		if c, ok := ops[x.Op]; ok {
			return fmt.Sprintf("(.%s %s %s)", c, m.expr(x.X), m.expr(x.Y))
		}
	case *ast.CallExpr:
		if sel, ok := x.Fun.(*ast.SelectorExpr); ok && len(x.Args) == 1 {
			switch sel.Sel.Name {
			case "After":
				return fmt.Sprintf("(.gt %s %s)", m.expr(sel.X), m.expr(x.Args[0]))
			case "Before":
				return fmt.Sprintf("(.lt %s %s)", m.expr(sel.X), m.expr(x.Args[0]))
			case "Equal":
				return fmt.Sprintf("(.eq %s %s)", m.expr(sel.X), m.expr(x.Args[0]))
			}
		}
	}
	m.bad(e, "unsupported condition")
	return "(.eq (.lit 0) (.lit 1))"
}

// returnsOf classifies `return A, B`
func (m *mkFile) returnKind(r *ast.ReturnStmt) string {
	if len(r.Results) != 2 {
		return "?"
	}
	second := mkSrc(m.fset, r.Results[1])
	first := mkSrc(m.fset, r.Results[0])
	switch {
	case first == "ModKey{}" && second == "modKeyUnusable":
		return "unusable"
	case first == "ModKey{}" && second == "err":
		return "error"
	case second == "nil":
		return "key"
	}
	return "?"
}
