package main

// c14facts: regenerated facts for property C14 (output only uses syntax of the configured target).
//
//	Gen/OverrideCalls.lean  — the ordered fixInvalidUnsupportedJSFeatureOverrides(options, implies, implied) calls of
//	                          bundler.applyOptionDefaults and the body of that helper (condition + `|=` statements)
//	Gen/FeatureGates.lean   — every reference to a compat.JSFeature constant outside the table, with file, enclosing
//	                          function and syntactic role, plus the case table of parser.markSyntaxFeature
//	Gen/RuntimeGuards.lean  — the text segments of runtime.Source with the `!unsupportedJSFeatures.Has(..)` guards
//	                          they are under and the syntax features a token scanner finds in them
//
// go/ast only (no type information): the `compat` import is resolved per file from its import path.

import (
	"fmt"
	"go/ast"
	"go/token"
	"os"
	"path/filepath"
	"sort"
	"strconv"
	"strings"
)

const compatImportPath = "github.com/evanw/esbuild/internal/compat"

var jsFeatureFields = map[string]bool{
	"UnsupportedJSFeatures":             true,
	"UnsupportedJSFeatureOverrides":     true,
	"UnsupportedJSFeatureOverridesMask": true,
}

func leanStr(s string) string {
	var sb strings.Builder
	sb.WriteByte('"')
	for _, r := range s {
		switch {
		case r == '"':
			sb.WriteString("\\\"")
		case r == '\\':
			sb.WriteString("\\\\")
		case r == '\n':
			sb.WriteString("\\n")
		case r == '\t':
			sb.WriteString("\\t")
		case r < 0x20 || r == 0x7f:
			fmt.Fprintf(&sb, "\\x%02x", r)
		default:
			sb.WriteRune(r)
		}
	}
	sb.WriteByte('"')
	return sb.String()
}

func leanQList(xs []string) string {
	ys := make([]string, len(xs))
	for i, x := range xs {
		ys[i] = leanStr(x)
	}
	return "[" + strings.Join(ys, ", ") + "]"
}

// compatLocalName returns the name under which a file imports internal/compat ("" if it does not)
func compatLocalName(f *ast.File) string {
	for _, im := range f.Imports {
		p, err := strconv.Unquote(im.Path.Value)
		if err != nil || p != compatImportPath {
			continue
		}
		if im.Name != nil {
			return im.Name.Name
		}
		return "compat"
	}
	return ""
}

func findFunc(f *ast.File, name string) *ast.FuncDecl {
	for _, d := range f.Decls {
		if fd, ok := d.(*ast.FuncDecl); ok && fd.Name.Name == name && fd.Body != nil {
			return fd
		}
	}
	return nil
}

// featureSel: `compat.X` → X
func featureSel(e ast.Expr, local string, features map[string]bool) (string, bool) {
	if p, ok := e.(*ast.ParenExpr); ok {
		return featureSel(p.X, local, features)
	}
	sel, ok := e.(*ast.SelectorExpr)
	if !ok {
		return "", false
	}
	id, ok := sel.X.(*ast.Ident)
	if !ok || id.Name != local || !features[sel.Sel.Name] {
		return "", false
	}
	return sel.Sel.Name, true
}

// featureOr: `compat.A | compat.B | …` → [A, B, …] in source order
func featureOr(e ast.Expr, local string, features map[string]bool) ([]string, bool) {
	switch x := e.(type) {
	case *ast.ParenExpr:
		return featureOr(x.X, local, features)
	case *ast.BinaryExpr:
		if x.Op != token.OR {
			return nil, false
		}
		l, ok1 := featureOr(x.X, local, features)
		r, ok2 := featureOr(x.Y, local, features)
		return append(l, r...), ok1 && ok2
	}
	n, ok := featureSel(e, local, features)
	if !ok {
		return nil, false
	}
	return []string{n}, true
}

func compatFeatureNames() (list []string, set map[string]bool) {
	_, f := parseFile("internal/compat/js_table.go")
	if f == nil {
		return nil, nil
	}
	list = constBlockNames(f, "JSFeature")
	set = map[string]bool{}
	for _, n := range list {
		set[n] = true
	}
	if len(list) == 0 {
		fail("js_table.go: JSFeature const block not found")
	}
	return
}

// ---------------------------------------------------------------------------------------------------------
// 1. override implications

func extractOverrideCalls(features map[string]bool) {
	const rel = "internal/bundler/bundler.go"
	const helper = "fixInvalidUnsupportedJSFeatureOverrides"
	fset, f := parseFile(rel)
	if f == nil {
		return
	}
	local := compatLocalName(f)
	if local == "" {
		fail("%s does not import %s", rel, compatImportPath)
		return
	}
	apply := findFunc(f, "applyOptionDefaults")
	fix := findFunc(f, helper)
	if apply == nil || fix == nil {
		fail("%s: applyOptionDefaults / %s not found", rel, helper)
		return
	}
	if len(apply.Type.Params.List) != 1 || len(apply.Type.Params.List[0].Names) != 1 {
		fail("%s: applyOptionDefaults: unexpected parameters", rel)
		return
	}
	optName := apply.Type.Params.List[0].Names[0].Name

	// (a) the calls must be top-level statements of applyOptionDefaults (so that "in source order, unconditionally"
	// is what the code does) and must not occur anywhere else in the package file
	type call struct {
		implies string
		implied []string
		line    int
	}
	var calls []call
	topLevel := map[*ast.CallExpr]bool{}
	isHelperCall := func(c *ast.CallExpr) bool {
		id, ok := c.Fun.(*ast.Ident)
		return ok && id.Name == helper
	}
	for _, st := range apply.Body.List {
		es, ok := st.(*ast.ExprStmt)
		if !ok {
			continue
		}
		c, ok := es.X.(*ast.CallExpr)
		if !ok || !isHelperCall(c) {
			continue
		}
		topLevel[c] = true
		line := fset.Position(c.Pos()).Line
		if len(c.Args) != 3 {
			fail("%s:%d: %s: expected 3 arguments", rel, line, helper)
			return
		}
		if id, ok := c.Args[0].(*ast.Ident); !ok || id.Name != optName {
			fail("%s:%d: %s: first argument is not %s", rel, line, helper, optName)
			return
		}
		imp, ok := featureSel(c.Args[1], local, features)
		if !ok {
			fail("%s:%d: %s: `implies` is not a single compat.JSFeature constant", rel, line, helper)
			return
		}
		implied, ok := featureOr(c.Args[2], local, features)
		if !ok {
			fail("%s:%d: %s: `implied` is not an |-combination of compat.JSFeature constants", rel, line, helper)
			return
		}
		calls = append(calls, call{imp, implied, line})
	}
	ast.Inspect(f, func(n ast.Node) bool {
		if c, ok := n.(*ast.CallExpr); ok && isHelperCall(c) && !topLevel[c] {
			fail("%s:%d: call of %s that is not a top-level statement of applyOptionDefaults", rel, fset.Position(c.Pos()).Line, helper)
		}
		return true
	})
	if len(calls) == 0 {
		fail("%s: no %s call found", rel, helper)
		return
	}

	// (b) every other statement of applyOptionDefaults that writes one of the three feature fields
	var otherWrites []string
	ast.Inspect(apply.Body, func(n ast.Node) bool {
		as, ok := n.(*ast.AssignStmt)
		if !ok {
			return true
		}
		for i, lhs := range as.Lhs {
			root, path := selectorPath(lhs)
			if root != optName || len(path) != 1 || !jsFeatureFields[path[0]] {
				continue
			}
			line := fset.Position(as.Pos()).Line
			if as.Tok != token.OR_ASSIGN || i >= len(as.Rhs) {
				fail("%s:%d: applyOptionDefaults writes %s with %s (only |= is modelled)", rel, line, path[0], as.Tok)
				continue
			}
			fs, ok := featureOr(as.Rhs[i], local, features)
			if !ok {
				fail("%s:%d: applyOptionDefaults: right-hand side of %s |= … is not a combination of constants", rel, line, path[0])
				continue
			}
			for _, ft := range fs {
				otherWrites = append(otherWrites, fmt.Sprintf("(%s, %s)", leanStr(path[0]), leanStr(ft)))
			}
		}
		return true
	})

	// (c) the helper's body: `if options.F.Has(param) { options.G |= param; … }`
	var params []string
	for _, fld := range fix.Type.Params.List {
		for _, n := range fld.Names {
			params = append(params, n.Name)
		}
	}
	if len(params) != 3 || len(fix.Body.List) != 1 {
		fail("%s: %s: expected 3 parameters and a body of one statement", rel, helper)
		return
	}
	ifs, ok := fix.Body.List[0].(*ast.IfStmt)
	if !ok || ifs.Init != nil || ifs.Else != nil {
		fail("%s: %s: body is not a single if without else", rel, helper)
		return
	}
	condCall, ok := ifs.Cond.(*ast.CallExpr)
	var condField, condParam string
	if ok && len(condCall.Args) == 1 {
		if sel, ok2 := condCall.Fun.(*ast.SelectorExpr); ok2 && sel.Sel.Name == "Has" {
			root, path := selectorPath(sel.X)
			if id, ok3 := condCall.Args[0].(*ast.Ident); ok3 && root == params[0] && len(path) == 1 {
				condField, condParam = path[0], id.Name
			}
		}
	}
	if condField == "" {
		fail("%s: %s: condition is not %s.<field>.Has(<parameter>)", rel, helper, params[0])
		return
	}
	var assigns []string
	for _, st := range ifs.Body.List {
		as, ok := st.(*ast.AssignStmt)
		good := ok && as.Tok == token.OR_ASSIGN && len(as.Lhs) == 1 && len(as.Rhs) == 1
		if good {
			root, path := selectorPath(as.Lhs[0])
			id, ok2 := as.Rhs[0].(*ast.Ident)
			if ok2 && root == params[0] && len(path) == 1 {
				assigns = append(assigns, fmt.Sprintf("(%s, %s)", leanStr(path[0]), leanStr(id.Name)))
				continue
			}
		}
		fail("%s:%d: %s: statement is not %s.<field> |= <parameter>", rel, fset.Position(st.Pos()).Line, helper, params[0])
		return
	}

	var sb strings.Builder
	fmt.Fprintf(&sb, "-- GENERATED by harness/cmd/extract (c14facts.go) from %s — do not edit\nnamespace EsbuildModel.Gen.OverrideCalls\n", rel)
	fmt.Fprintf(&sb, "/-- parameters of `%s`, in order -/\ndef fixParams : List String := %s\n", helper, leanQList(params))
	fmt.Fprintf(&sb, "/-- its condition `%s.<field>.Has(<parameter>)` -/\ndef fixCond : String × String := (%s, %s)\n", params[0], leanStr(condField), leanStr(condParam))
	fmt.Fprintf(&sb, "/-- the statements `%s.<field> |= <parameter>` of its then-branch, in order (there is no else) -/\ndef fixAssigns : List (String × String) := [%s]\n", params[0], strings.Join(assigns, ", "))
	sb.WriteString("/-- the calls in `applyOptionDefaults`, in source order: (implies, implied) -/\ndef calls : List (String × List String) := [\n")
	for i, c := range calls {
		comma := ","
		if i == len(calls)-1 {
			comma = ""
		}
		fmt.Fprintf(&sb, "  (%s, %s)%s\n", leanStr(c.implies), leanQList(c.implied), comma)
	}
	sb.WriteString("]\n")
	fmt.Fprintf(&sb, "/-- every other `%s.<JS feature field> |= compat.X` statement of `applyOptionDefaults`: (field, X) -/\ndef otherWrites : List (String × String) := [%s]\n", optName, strings.Join(otherWrites, ", "))
	sb.WriteString("end EsbuildModel.Gen.OverrideCalls\n")
	writeIfChanged("OverrideCalls.lean", sb.String())
}

// goSourceFiles lists the non-test, non-verif .go files below the given directories of the repo (relative paths)
func goSourceFiles(dirs ...string) []string {
	var out []string
	for _, d := range dirs {
		filepath.Walk(filepath.Join(repo, d), func(path string, info os.FileInfo, err error) error {
			if err != nil || info.IsDir() {
				return nil
			}
			name := info.Name()
			if !strings.HasSuffix(name, ".go") || strings.HasSuffix(name, "_test.go") || strings.HasPrefix(name, "verif_") {
				return nil
			}
			rel, err := filepath.Rel(repo, path)
			if err == nil {
				out = append(out, filepath.ToSlash(rel))
			}
			return nil
		})
	}
	sort.Strings(out)
	return out
}

func extractC14Facts() {
	featureList, features := compatFeatureNames()
	if features == nil {
		return
	}
	extractOverrideCalls(features)
	extractFeatureGates(featureList, features)
	extractRuntimeGuards(features)
}
