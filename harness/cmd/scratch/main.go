package main

import (
	"fmt"
	"strings"

	"github.com/evanw/esbuild/pkg/api"
)

func main() {
	seen := map[string]int{}
	for i := 0; i < 20; i++ {
		r := api.Build(api.BuildOptions{EntryPoints: []string{"nope1.js", "nope2.js", "nope3.js", "nope4.js", "nope5.js", "nope6.js"}, Bundle: true, Outdir: "/tmp/vh/c08/out", LogLevel: api.LogLevelSilent})
		s := []string{}
		for _, e := range r.Errors {
			s = append(s, e.Text)
		}
		seen[strings.Join(s, "|")]++
	}
	fmt.Println(len(seen), "distinct orders")
}
