package main

import (
	"bufio"
	"encoding/base64"
	"encoding/json"
	"fmt"
	"go/scanner"
	"go/token"
	"os"
	"runtime"
	"os/exec"
	"path/filepath"
	"strconv"
	"strings"
	"syscall"
	"time"

	"github.com/evanw/esbuild/pkg/api"
	"github.com/evanw/esbuild/verifharness/gen"
)

// c16-fuzz: byte strings derived by structure-aware mutation from the repository's own test inputs (every Go
// string literal of the parser/printer test files) and from this harness's generators, given to every loader
// under many option sets, as transforms and as bundles (with malformed package.json / tsconfig.json / source
// map payloads).  Cases run in WORKER PROCESSES with an address-space limit and a per-case deadline, so that a
// crash, an out-of-memory abort or a hang of one case is observed and attributed instead of taking the search
// down.  Violations: a Go panic that escapes, an error message that reports a recovered panic or an internal
// error, a case that exceeds its deadline, a worker that dies.

type fuzzCase struct {
	ID     int               `json:"id"`
	Kind   string            `json:"kind"` // transform | bundle
	Loader string            `json:"loader"`
	Opt    string            `json:"opt"`
	Input  string            `json:"input_b64"`
	Files  map[string]string `json:"files_b64,omitempty"`
	Origin string            `json:"origin,omitempty"`
}

type fuzzResult struct {
	ID      int    `json:"id"`
	Status  string `json:"status"` // ok | errors | panic-message | panic | hang
	Detail  string `json:"detail,omitempty"`
	Millis  int64  `json:"ms"`
	Started bool   `json:"started,omitempty"`
}

func loaderOf(name string) api.Loader {
	switch name {
	case "jsx":
		return api.LoaderJSX
	case "ts":
		return api.LoaderTS
	case "tsx":
		return api.LoaderTSX
	case "css":
		return api.LoaderCSS
	case "local-css":
		return api.LoaderLocalCSS
	case "json":
		return api.LoaderJSON
	}
	return api.LoaderJS
}

func runFuzzCase(c fuzzCase, dir string) fuzzResult {
	res := fuzzResult{ID: c.ID, Status: "ok"}
	start := time.Now()
	done := make(chan struct{})
	go func() {
		defer close(done)
		defer func() {
			if r := recover(); r != nil {
				res.Status, res.Detail = "panic", fmt.Sprint(r)
			}
		}()
		input, _ := base64.StdEncoding.DecodeString(c.Input)
		var msgs []api.Message
		if c.Kind == "transform" {
			o := optsFromName(c.Opt)
			o.Loader = loaderOf(c.Loader)
			o.LogLevel = api.LogLevelSilent
			o.Sourcefile = "input." + c.Loader
			r := api.Transform(string(input), o)
			msgs = append(r.Errors, r.Warnings...)
		} else {
			os.RemoveAll(dir)
			for rel, b64 := range c.Files {
				b, _ := base64.StdEncoding.DecodeString(b64)
				p := filepath.Join(dir, rel)
				os.MkdirAll(filepath.Dir(p), 0755)
				os.WriteFile(p, b, 0644)
			}
			bo := buildOptsFromName(c.Opt, dir, []string{"entry." + c.Loader}, "out")
			bo.LogLevel = api.LogLevelSilent
			r := api.Build(bo)
			msgs = append(r.Errors, r.Warnings...)
			os.RemoveAll(dir)
		}
		if len(msgs) > 0 {
			res.Status = "errors"
		}
		for _, m := range msgs {
			t := m.Text
			if strings.HasPrefix(t, "panic:") || strings.Contains(t, "Internal error") || strings.Contains(t, "internal error") || strings.Contains(t, "runtime error") {
				res.Status, res.Detail = "panic-message", t
				break
			}
		}
	}()
	// The limits are in CPU time of this worker process (one case at a time), so that a loaded machine does not
	// turn an ordinary case into a "hang": 12 s without a result is a hang once 12 s of CPU were spent on it, or
	// after 60 s of wall clock whatever the CPU time (a deadlock burns none).
	cpu0 := processCPUMillis()
	deadline := time.After(60 * time.Second)
wait:
	for {
		select {
		case <-done:
			break wait
		case <-deadline:
			res.Status, res.Detail = "hang", "no result within 60 s"
			break wait
		case <-time.After(500 * time.Millisecond):
			if time.Since(start) > 12*time.Second && processCPUMillis()-cpu0 > 12000 {
				res.Status, res.Detail = "hang", "no result after 12 s of CPU time"
				break wait
			}
		}
	}
	res.Millis = time.Since(start).Milliseconds()
	if cpu := processCPUMillis() - cpu0; cpu < res.Millis {
		res.Millis = cpu
	}
	return res
}

func processCPUMillis() int64 {
	var ru syscall.Rusage
	if syscall.Getrusage(syscall.RUSAGE_SELF, &ru) != nil {
		return 1 << 40
	}
	return (ru.Utime.Sec+ru.Stime.Sec)*1000 + int64(ru.Utime.Usec+ru.Stime.Usec)/1000
}

// worker: hapi c16-worker <cases.json> <results.jsonl>
func fuzzWorker(in, out string) {
	data, _ := os.ReadFile(in)
	var cases []fuzzCase
	json.Unmarshal(data, &cases)
	f, _ := os.Create(out)
	defer f.Close()
	dir := in + ".dir"
	for _, c := range cases {
		// mark the case as started first: if the process dies here, the parent knows which case it was
		js, _ := json.Marshal(fuzzResult{ID: c.ID, Status: "started", Started: true})
		f.Write(append(js, '\n'))
		f.Sync()
		r := runFuzzCase(c, dir)
		js, _ = json.Marshal(r)
		f.Write(append(js, '\n'))
		f.Sync()
		if r.Status == "hang" {
			os.Exit(3) // the stuck goroutine cannot be stopped: let the parent start a new worker
		}
	}
}

// ---------------------------------------------------------------- corpus and mutation

func goStringLiterals(path string, maxLen int) []string {
	src, err := os.ReadFile(path)
	if err != nil {
		return nil
	}
	fset := token.NewFileSet()
	file := fset.AddFile(path, fset.Base(), len(src))
	var s scanner.Scanner
	s.Init(file, src, nil, 0)
	out := []string{}
	for {
		_, tok, lit := s.Scan()
		if tok == token.EOF {
			break
		}
		if tok == token.STRING {
			if v, err := strconv.Unquote(lit); err == nil && len(v) >= 2 && len(v) <= maxLen {
				out = append(out, v)
			}
		}
	}
	return out
}

type fuzzCorpus struct {
	js, ts, css, json []string
}

func loadCorpus() fuzzCorpus {
	repo := os.Getenv("VERIF_REPO")
	if repo == "" {
		repo = "/repo"
	}
	var c fuzzCorpus
	c.js = append(goStringLiterals(filepath.Join(repo, "internal/js_parser/js_parser_test.go"), 600), goStringLiterals(filepath.Join(repo, "internal/js_printer/js_printer_test.go"), 600)...)
	c.js = append(c.js, goStringLiterals(filepath.Join(repo, "internal/js_lexer/js_lexer_test.go"), 300)...)
	c.ts = goStringLiterals(filepath.Join(repo, "internal/js_parser/ts_parser_test.go"), 600)
	c.css = append(goStringLiterals(filepath.Join(repo, "internal/css_parser/css_parser_test.go"), 600), goStringLiterals(filepath.Join(repo, "internal/css_printer/css_printer_test.go"), 300)...)
	c.css = append(c.css, goStringLiterals(filepath.Join(repo, "internal/css_parser/css_nesting_test.go"), 600)...)
	c.json = goStringLiterals(filepath.Join(repo, "internal/js_parser/json_parser_test.go"), 300)
	return c
}

var fuzzTokens = []string{"\x00", "\xff\xfe", "\xc0\xaf", "\xed\xa0\x80", "\u2028", "\u2029", "\ufeff", "\\u{10FFFFF}", "\\u{", "\\x", "\\", "`", "${", "}", "/*", "*/", "//", "<!--", "-->", "#!", "@", "#", "</script>", "</style>",
	"1e999999", "0x", "0b", "0o", "9007199254740993n", ".e1", "1_", "..", "...", "?.", "??=", "**=", ">>>=", "=>", "async", "await", "yield", "let", "static", "get", "set", "accessor", "using", "enum", "namespace", "declare", "abstract", "satisfies", "as", "type", "import", "export", "default", "from", "with", "assert",
	"class", "extends", "super", "new.target", "import.meta", "<", ">", "</", "/>", "{...", "<T,>", "<T>(", "@dec", "#priv", "in", "of",
	"@media", "@supports", "@layer", "@import", "@container", "@property", "@keyframes", "@font-face", "@scope", "@starting-style", "@nest", "&", ":is(", ":where(", ":not(", ":has(", ":global(", ":local(", "composes:", "from global", "url(", "url(\"", "calc(", "var(--", "!important", "rgb(", "color-mix(in", "#ffff", "\\0", "\\10FFFF ", "U+0-10FFFF", "u+?", "--", "-", "+", "n+1", "of S",
	"//# sourceMappingURL=data:application/json;base64,", "//# sourceMappingURL=x.map", "/*# sourceMappingURL=data:,{ */", "\"use strict\"", "\"__proto__\":", "[", "]", "(", ")", "{", ",", ";", ":", "\n", "\r", "\t", " "}

func mutate(r *gen.Rand, seeds []string, other []string) string {
	s := seeds[r.Intn(len(seeds))]
	b := []byte(s)
	n := 1 + r.Intn(4)
	for k := 0; k < n; k++ {
		switch r.Intn(16) {
		case 14, 15: // a multi-line comment (legal or not) at some indent, whose continuation lines are indented more, less,
			// not at all, are blank, or hold FEWER white-space characters than the common indent (re-indentation of legal comments)
			ws := func(n int) string {
				if r.Chance(1, 4) {
					return strings.Repeat("\t", n)
				}
				if r.Chance(1, 8) {
					return strings.Repeat(" \t", (n+1)/2)
				}
				return strings.Repeat(" ", n)
			}
			indent := r.Intn(9)
			nl := []string{"\n", "\n", "\r\n", "\u2028"}[r.Intn(4)]
			var sb strings.Builder
			sb.WriteString(nl + ws(indent) + []string{"/*!", "/*! legal", "/* @license", "/** @preserve", "/*", "/**", "//! a\n" + ws(indent) + "/*!"}[r.Intn(7)])
			lines := 1 + r.Intn(5)
			for l := 0; l < lines; l++ {
				sb.WriteString(nl)
				switch r.Intn(6) {
				case 0: // blank
				case 1: // white space only, shorter than the indent
					if indent > 0 {
						sb.WriteString(ws(r.Intn(indent)))
					}
				case 2: // white space only, longer
					sb.WriteString(ws(indent + r.Intn(3)))
				case 3: // text at a smaller indent
					sb.WriteString(ws(r.Intn(indent+1)) + "* less")
				default:
					sb.WriteString(ws(indent+r.Intn(3)) + " * text " + []string{"", "\u00e9", "*/ /*!", "@license"}[r.Intn(4)])
				}
			}
			sb.WriteString(nl + ws(r.Intn(indent+2)) + "*/" + nl)
			i := r.Intn(len(b) + 1)
			b = append(b[:i:i], append([]byte(sb.String()), b[i:]...)...)
		case 0: // flip a byte
			if len(b) > 0 {
				b[r.Intn(len(b))] ^= byte(1 << uint(r.Intn(8)))
			}
		case 1: // delete a slice
			if len(b) > 1 {
				i := r.Intn(len(b))
				j := i + 1 + r.Intn(min(len(b)-i, 12))
				b = append(b[:i:i], b[j:]...)
			}
		case 2: // duplicate a slice
			if len(b) > 1 {
				i := r.Intn(len(b))
				j := i + 1 + r.Intn(min(len(b)-i, 40))
				b = append(b[:j:j], append(append([]byte{}, b[i:j]...), b[j:]...)...)
			}
		case 3, 4, 5: // insert a token
			t := fuzzTokens[r.Intn(len(fuzzTokens))]
			i := r.Intn(len(b) + 1)
			b = append(b[:i:i], append([]byte(t), b[i:]...)...)
		case 6: // truncate
			if len(b) > 2 {
				b = b[:1+r.Intn(len(b)-1)]
			}
		case 7: // splice with another seed
			o := seeds[r.Intn(len(seeds))]
			if len(other) > 0 && r.Chance(1, 3) {
				o = other[r.Intn(len(other))]
			}
			i := r.Intn(len(b) + 1)
			j := r.Intn(len(o) + 1)
			b = append(b[:i:i], []byte(o[j:])...)
		case 8: // deep nesting of one bracket kind
			open := []string{"(", "[", "{", "`${", "<a>", "a?.", "!", "-", "new ", "a=>", "{a:", "[...", "(a,", "async()=>", "class{static{", ":is(", "&{", "@media{", "a,b{", "calc(", "var(--a,", "[", "{\"a\":"}[r.Intn(23)]
			depth := []int{50, 500, 3000, 12000}[r.Intn(4)]
			i := r.Intn(len(b) + 1)
			b = append(b[:i:i], append([]byte(strings.Repeat(open, depth)), b[i:]...)...)
		case 9: // long run of one byte
			c := []byte{'a', '0', '9', ' ', '\n', '\\', '"', '\'', '/', '*', '_', 0xff}[r.Intn(12)]
			i := r.Intn(len(b) + 1)
			run := make([]byte, []int{64, 1000, 30000}[r.Intn(3)])
			for x := range run {
				run[x] = c
			}
			b = append(b[:i:i], append(run, b[i:]...)...)
		case 10: // swap two slices
			if len(b) > 8 {
				i, j := r.Intn(len(b)/2), len(b)/2+r.Intn(len(b)/2)
				b[i], b[j] = b[j], b[i]
			}
		case 11: // numeric blow-up
			i := r.Intn(len(b) + 1)
			t := []string{"1e+9999", "0." + strings.Repeat("0", 400) + "1", strings.Repeat("9", 400), "0x" + strings.Repeat("f", 300), "1" + strings.Repeat("_0", 100), strings.Repeat("9", 30) + "n", "\\u{" + strings.Repeat("0", 50) + "41}"}[r.Intn(7)]
			b = append(b[:i:i], append([]byte(t), b[i:]...)...)
		case 12: // wrap
			w := [][2]string{{"(", ")"}, {"{", "}"}, {"[", "]"}, {"`", "`"}, {"`${", "}`"}, {"/*", "*/"}, {"function f(){", "}"}, {"class A{", "}"}, {"@media x{", "}"}, {"a{", "}"}, {"<a>{", "}</a>"}, {"type T=", ";"}, {"x=<T,>(", ")=>1"}}[r.Intn(13)]
			b = append([]byte(w[0]), append(b, []byte(w[1])...)...)
		default: // source map comment with a payload made from a JSON seed
			payload := "{\"version\":3,\"sources\":[\"a\"],\"mappings\":\"" + []string{"AAAA", "AAAA;;;;AACA", "A", "gggggggggggggggggggggB", "AAAAA,AAAAAA", "~~~~", ""}[r.Intn(7)] + "\"" + []string{"}", ",\"sections\":[{\"offset\":{\"line\":0,\"column\":0},\"map\":{\"version\":3,\"sources\":[\"b\"],\"sourcesContent\":[\"x\",\"y\",\"z\"],\"mappings\":\"AAAA\"}},{\"offset\":{\"line\":1,\"column\":0},\"map\":{\"version\":3,\"sources\":[\"c\"],\"sourcesContent\":[\"q\"],\"mappings\":\"AAAA\"}}]}", ",\"names\":[1,null,{}],\"sourcesContent\":[null,1]}", ",\"sourceRoot\":\"%zz\"}", ""}[r.Intn(5)]
			b = append(b, []byte("\n//# sourceMappingURL=data:application/json;base64,"+base64.StdEncoding.EncodeToString([]byte(payload))+"\n")...)
		}
		if len(b) > 60000 {
			b = b[:60000]
		}
	}
	return string(b)
}

// machineOverloaded: the 1-minute load average exceeds the number of CPUs
func machineOverloaded() bool {
	b, err := os.ReadFile("/proc/loadavg")
	if err != nil {
		return false
	}
	f := strings.Fields(string(b))
	if len(f) == 0 {
		return false
	}
	l, err := strconv.ParseFloat(f[0], 64)
	return err == nil && l > float64(runtime.NumCPU())
}

func genFuzzCase(r *gen.Rand, id int, corpus fuzzCorpus) fuzzCase {
	c := fuzzCase{ID: id, Kind: "transform"}
	loaders := []string{"js", "js", "jsx", "ts", "tsx", "css", "css", "local-css", "json"}
	c.Loader = loaders[r.Intn(len(loaders))]
	var seeds, other []string
	switch c.Loader {
	case "js", "jsx":
		seeds, other = corpus.js, corpus.ts
	case "ts", "tsx":
		seeds, other = corpus.ts, corpus.js
	case "css", "local-css":
		seeds, other = corpus.css, corpus.js
	default:
		seeds, other = corpus.json, corpus.js
	}
	if len(seeds) == 0 {
		seeds = []string{"a"}
	}
	input := mutate(r, seeds, other)
	if r.Chance(1, 12) {
		// well-formed but deeply nested CSS: selector lists multiply at every level, esbuild has to stop the
		// expansion ("too much expansion") whatever the target supports
		c.Loader = "css"
		open := []string{"a,b{", ".a,.b,.c{", "&:hover,&:focus{", ":is(a,b) c,d{", "a{&,b{", "@media x{a,b{", "a,b{@supports (x:y){"}[r.Intn(7)]
		depth := 8 + r.Intn(40)
		closers := strings.Count(open, "{")
		input = strings.Repeat(open, depth) + "color:red" + strings.Repeat("}", depth*closers)
	}
	jsOpts := []string{"", "ms,mi,mw", "ms", "target=es5", "target=es2015,ms", "fmt=cjs", "fmt=iife,global=a.b.c", "sourcemap=inline", "kn,mi", "ascii,mw", "ll40,mw", "target=es2017,ms,mi", "platform=node,fmt=esm", "engine=chrome:50", "sup:class=false", "sup:destructuring=false,sup:arrow=false", "drop=console", "mp=_$,ms"}
	cssOpts := []string{"", "ms,mw", "target=es2015", "engine=chrome:50", "engine=safari:14", "engine=chrome:100", "engine=firefox:60,ms", "engine=safari:14,ms", "ll40,mw", "sourcemap=inline"}
	if strings.Contains(c.Loader, "css") {
		c.Opt = cssOpts[r.Intn(len(cssOpts))]
	} else {
		c.Opt = jsOpts[r.Intn(len(jsOpts))]
	}
	c.Input = base64.StdEncoding.EncodeToString([]byte(input))
	if r.Chance(1, 6) {
		// bundle: the input is the entry point, next to (possibly malformed) configuration files
		c.Kind = "bundle"
		enc := func(s string) string { return base64.StdEncoding.EncodeToString([]byte(s)) }
		c.Files = map[string]string{"entry." + c.Loader: c.Input}
		pj := []string{"{\"name\":\"x\",\"sideEffects\":false}", "{\"exports\":{\".\":{\"import\":\"./e.js\",\"default\":[]}},\"imports\":{\"#a\":null}}", "{\"browser\":{\"./a\":false,\"b\":\"./c\"},\"main\":7}", "{\"type\":\"module\",\"sideEffects\":[\"*.css\", 1]}", "{", "[]", "\xff", "{\"exports\":\"./x\",\"exports\":{\"a\":1}}"}
		ts := []string{"{\"compilerOptions\":{\"jsx\":\"react-jsx\",\"paths\":{\"*\":[\"./*\"]},\"baseUrl\":\".\"}}", "{\"extends\":\"./tsconfig.json\"}", "{\"extends\":[\"./a\",1]}", "{\"compilerOptions\":{\"target\":7,\"useDefineForClassFields\":\"x\",\"paths\":{\"a\":\"b\"}}}", "{/*c*/\"compilerOptions\":{\"jsxFactory\":\"1+\",\"jsxFragmentFactory\":\"\"},}", "\x00", "{\"compilerOptions\":{\"baseUrl\":\"\\u0000\"}}"}
		c.Files["package.json"] = enc(mutate(r, pj, nil))
		c.Files["tsconfig.json"] = enc(mutate(r, ts, nil))
		c.Files["dep.js"] = enc(mutate(r, corpus.js, nil))
		c.Files["dep.css"] = enc(mutate(r, corpus.css, nil))
		if !strings.Contains(c.Loader, "css") && c.Loader != "json" {
			c.Files["entry."+c.Loader] = enc("import \"./dep.js\";\nimport \"./dep.css\";\n" + input)
		} else if strings.Contains(c.Loader, "css") {
			c.Files["entry."+c.Loader] = enc("@import \"./dep.css\";\n" + input)
		}
		c.Opt = []string{"fmt=esm", "fmt=esm,ms,mi,mw", "fmt=cjs,sourcemap=external", "fmt=iife,splitting", "fmt=esm,splitting,metafile"}[r.Intn(5)]
	}
	return c
}

// runFuzzCaseAlone runs one case in a worker process of its own.
func runFuzzCaseAlone(c fuzzCase, workdir string) (fuzzResult, bool) {
	in := filepath.Join(workdir, fmt.Sprintf("fuzz-alone-%d.json", c.ID))
	out := filepath.Join(workdir, fmt.Sprintf("fuzz-alone-%d.jsonl", c.ID))
	js, _ := json.Marshal([]fuzzCase{c})
	os.WriteFile(in, js, 0644)
	defer os.Remove(in)
	defer os.Remove(out)
	self, _ := os.Executable()
	cmd := exec.Command("bash", "-c", fmt.Sprintf("ulimit -v 6000000; exec timeout -k 5 100 %q c16-worker %q %q", self, in, out))
	cmd.Env = append(os.Environ(), "GOMEMLIMIT=2500MiB", "GOMAXPROCS=4")
	cmd.CombinedOutput()
	f, err := os.Open(out)
	if err != nil {
		return fuzzResult{}, false
	}
	defer f.Close()
	sc := bufio.NewScanner(f)
	sc.Buffer(make([]byte, 1<<20), 1<<26)
	for sc.Scan() {
		var r fuzzResult
		if json.Unmarshal(sc.Bytes(), &r) == nil && !r.Started {
			return r, true
		}
	}
	return fuzzResult{}, false
}

func runFuzzBatch(cases []fuzzCase, workdir string, rep *Report) {
	remaining := cases
	round := 0
	for len(remaining) > 0 && round < 60 {
		round++
		in := filepath.Join(workdir, fmt.Sprintf("fuzz-%d.json", round))
		out := filepath.Join(workdir, fmt.Sprintf("fuzz-%d.jsonl", round))
		js, _ := json.Marshal(remaining)
		os.WriteFile(in, js, 0644)
		self, _ := os.Executable()
		// address space limit 6 GB (the Go runtime reserves a lot of virtual memory), wall clock via timeout
		cmd := exec.Command("bash", "-c", fmt.Sprintf("ulimit -v 6000000; exec timeout -k 5 %d %q c16-worker %q %q", 90+len(remaining)/2, self, in, out))
		cmd.Env = append(os.Environ(), "GOMEMLIMIT=2500MiB", "GOMAXPROCS=4")
		stderr, _ := cmd.CombinedOutput()
		results := map[int]fuzzResult{}
		started := -1
		if f, err := os.Open(out); err == nil {
			sc := bufio.NewScanner(f)
			sc.Buffer(make([]byte, 1<<20), 1<<26)
			for sc.Scan() {
				var r fuzzResult
				if json.Unmarshal(sc.Bytes(), &r) == nil {
					if r.Started {
						started = r.ID
					} else {
						results[r.ID] = r
						started = -1
					}
				}
			}
			f.Close()
		}
		os.Remove(in)
		os.Remove(out)
		next := []fuzzCase{}
		for _, c := range remaining {
			r, ok := results[c.ID]
			if !ok {
				if c.ID == started {
					// the worker died while running this case
					tail := string(stderr)
					if len(tail) > 400 {
						tail = tail[:400]
					}
					rep.Evaluations++
					sig := ""
					if strings.Contains(c.Loader, "css") {
						raw, _ := base64.StdEncoding.DecodeString(c.Input)
						switch {
						case strings.Count(string(raw), "{") > 2000:
							sig = ":css-deep-braces"
						case strings.Count(string(raw), "(") > 2000:
							sig = ":css-deep-parens"
						}
					}
					rep.violate("c16/worker-died"+sig, fmt.Sprintf("the process died while compiling this input (%s loader, %s): %s", c.Loader, c.Opt, strings.TrimSpace(tail)), c)
					continue
				}
				next = append(next, c)
				continue
			}
			rep.Evaluations++
			rep.stat("status:" + r.Status)
			rep.stat("loader:" + c.Loader)
			if c.Kind == "bundle" {
				rep.stat("kind:bundle")
			}
			if r.Status == "errors" || r.Status == "ok" {
				rep.DistinctNontrivial++
			}
			// resource blow-ups get a signature so that a recorded one does not hide a different one
			sig := ""
			if strings.Contains(c.Loader, "css") {
				raw, _ := base64.StdEncoding.DecodeString(c.Input)
				switch {
				case strings.Count(string(raw), "{") > 2000:
					sig = ":css-deep-braces"
				case strings.Count(string(raw), "(") > 2000:
					sig = ":css-deep-parens"
				}
			}
			// a slow or hanging case is measured again, alone, in a fresh worker (no garbage of earlier cases to
			// collect, no neighbours): it counts only if it is slow both times
			if r.Status == "hang" || (r.Status != "panic" && r.Status != "panic-message" && r.Millis > 5000) {
				if r2, ok := runFuzzCaseAlone(c, workdir); ok {
					rep.stat("slow-case-measured-again")
					if r2.Status != "hang" && (r.Status == "hang" || r2.Millis < r.Millis) {
						r = r2
					}
				}
			}
			switch r.Status {
			case "panic":
				rep.violate("c16/panic", "a Go panic escaped: "+r.Detail, c)
			case "panic-message":
				rep.violate("c16/recovered-panic-reported", "esbuild reported an internal error: "+r.Detail, c)
			case "hang":
				rep.violate("c16/hang"+sig, fmt.Sprintf("no result (12 s of CPU time, or 60 s of wall clock) for an input of %d bytes (%s loader, %s)", len(c.Input)*3/4, c.Loader, c.Opt), c)
			default:
				if r.Millis > 5000 && r.Millis <= 10000 && machineOverloaded() {
					// between one and two times the limit on a machine whose run queue is longer than its CPU count: CPU time
					// itself is inflated (shared caches, SMT siblings); no verdict (a replay on a quieter machine decides)
					rep.stat("slow-under-overload-no-verdict")
					rep.Inconclusive++
				} else if r.Millis > 5000 {
					rep.violate("c16/slow"+sig, fmt.Sprintf("%d ms (the smaller of wall clock and CPU time) for an input of %d bytes (%s loader, %s)", r.Millis, len(c.Input)*3/4, c.Loader, c.Opt), c)
				}
			}
		}
		if len(next) == len(remaining) {
			// no progress at all (the worker could not even start): give up on this batch
			rep.Inconclusive += len(next)
			rep.stat("worker-made-no-progress")
			return
		}
		remaining = next
	}
}

func init() {
	searches["c16-fuzz"] = func(r *gen.Rand, count int, workdir string, rep *Report) {
		rep.Rule = "byte strings made by 1-4 structure-aware mutations (bit flips, slice deletion/duplication, token insertion from a 170-token dictionary incl. NUL, invalid UTF-8, line separators, unterminated comments/templates, huge numbers and escapes; truncation; splicing of two seeds; nesting 50-12000 deep of 23 bracket kinds incl. CSS nesting and :is(); runs of one byte up to 30000; source-map comments with malformed and sectioned payloads; multi-line legal and ordinary comments at indents 0-8 with blank, short-blank, over- and under-indented continuation lines, LF/CRLF/U+2028) of every Go string literal in the repository's js/ts/css/json parser, lexer and printer tests; x loaders {js,jsx,ts,tsx,css,local-css,json} x 18 JS / 8 CSS option sets as transforms, and as bundles next to mutated package.json/tsconfig.json/dependencies. Each case runs in a worker process (6 GB address space; 12 s of CPU time or 60 s of wall clock per case); violations: escaped panic, reported internal error/recovered panic, hang, dead worker, > 5 s (the smaller of wall clock and CPU time; a slow or hanging case is measured a second time alone in a fresh worker and counts only if slow both times, so that machine load and the garbage of earlier cases do not count). non-trivial = the case completed with ordinary output or diagnostics"
		os.MkdirAll(workdir, 0755)
		corpus := loadCorpus()
		rep.Distribution["corpus:js"] = len(corpus.js)
		rep.Distribution["corpus:ts"] = len(corpus.ts)
		rep.Distribution["corpus:css"] = len(corpus.css)
		rep.Distribution["corpus:json"] = len(corpus.json)
		batch := 400
		for done := 0; done < count; done += batch {
			n := batch
			if count-done < n {
				n = count - done
			}
			cases := []fuzzCase{}
			for i := 0; i < n; i++ {
				cases = append(cases, genFuzzCase(r.Fork(), done+i, corpus))
			}
			runFuzzBatch(cases, workdir, rep)
		}
	}
	replays["c16-fuzz"] = func(cj json.RawMessage, workdir string, rep *Report) {
		var c fuzzCase
		json.Unmarshal(cj, &c)
		os.MkdirAll(workdir, 0755)
		runFuzzBatch([]fuzzCase{c}, workdir, rep)
	}
}
