package main

import (
	"encoding/base64"
	"encoding/json"
	"fmt"
	"net/url"
	"os"
	"path/filepath"
	"strings"
	"unicode/utf8"

	"github.com/evanw/esbuild/pkg/api"
	"github.com/evanw/esbuild/verifharness/gen"
)

// ---- independent Source Map v3 decoder (does not use esbuild's sourcemap package) ----------------

type smSegment struct {
	GenLine, GenCol int
	HasSource       bool
	Src, Line, Col  int
	HasName         bool
	Name            int
}

type smJSON struct {
	Version        int       `json:"version"`
	Sources        []string  `json:"sources"`
	SourcesContent []*string `json:"sourcesContent"`
	Names          []string  `json:"names"`
	Mappings       string    `json:"mappings"`
	SourceRoot     string    `json:"sourceRoot"`
}

const b64 = "ABCDEFGHIJKLMNOPQRSTUVWXYZabcdefghijklmnopqrstuvwxyz0123456789+/"

func decodeMappings(s string) ([]smSegment, error) {
	var out []smSegment
	genLine, genCol, src, line, col, name := 0, 0, 0, 0, 0, 0
	i := 0
	readVLQ := func() (int, error) {
		shift, v := uint(0), 0
		for {
			if i >= len(s) {
				return 0, fmt.Errorf("truncated VLQ")
			}
			d := strings.IndexByte(b64, s[i])
			if d < 0 {
				return 0, fmt.Errorf("bad VLQ char %q at %d", s[i], i)
			}
			i++
			v |= (d & 31) << shift
			shift += 5
			if d&32 == 0 {
				break
			}
		}
		if v&1 != 0 {
			return -(v >> 1), nil
		}
		return v >> 1, nil
	}
	for i < len(s) {
		switch s[i] {
		case ';':
			genLine++
			genCol = 0
			i++
			continue
		case ',':
			i++
			continue
		}
		d, err := readVLQ()
		if err != nil {
			return nil, err
		}
		genCol += d
		seg := smSegment{GenLine: genLine, GenCol: genCol}
		if i < len(s) && s[i] != ',' && s[i] != ';' {
			vals := [3]int{}
			for k := 0; k < 3; k++ {
				v, err := readVLQ()
				if err != nil {
					return nil, err
				}
				vals[k] = v
			}
			src += vals[0]
			line += vals[1]
			col += vals[2]
			seg.HasSource, seg.Src, seg.Line, seg.Col = true, src, line, col
			if i < len(s) && s[i] != ',' && s[i] != ';' {
				v, err := readVLQ()
				if err != nil {
					return nil, err
				}
				name += v
				seg.HasName, seg.Name = true, name
			}
		}
		out = append(out, seg)
	}
	return out, nil
}

// lineStarts returns the byte offsets of line starts, lines separated by \n, \r\n, \r, U+2028, U+2029
func lineStarts(text string) []int {
	starts := []int{0}
	for i := 0; i < len(text); {
		r, w := utf8.DecodeRuneInString(text[i:])
		i += w
		switch r {
		case '\r':
			if i < len(text) && text[i] == '\n' {
				i++
			}
			starts = append(starts, i)
		case '\n', ' ', ' ':
			starts = append(starts, i)
		}
	}
	return starts
}

// offsetOf converts (line, UTF-16 column) to a byte offset; -1 if out of range
func offsetOf(text string, starts []int, line, col16 int) int {
	if line < 0 || line >= len(starts) {
		return -1
	}
	i := starts[line]
	end := len(text)
	if line+1 < len(starts) {
		end = starts[line+1]
	}
	c := 0
	for i < end && c < col16 {
		r, w := utf8.DecodeRuneInString(text[i:])
		if r > 0xFFFF {
			c += 2
		} else {
			c++
		}
		i += w
	}
	if c != col16 {
		return -1
	}
	return i
}

func isIdentChar(b byte) bool {
	return b == '_' || b == '$' || b >= '0' && b <= '9' || b >= 'a' && b <= 'z' || b >= 'A' && b <= 'Z' || b >= 0x80
}

// identAt returns the identifier-like token starting at off ("" if none or if off is mid-token)
func identAt(text string, off int) string {
	if off >= 0 && off+1 < len(text) && text[off] == '#' && isIdentChar(text[off+1]) {
		return "#" + identAt(text[off+1:], 0)
	}
	if off < 0 || off >= len(text) || !isIdentChar(text[off]) || text[off] >= '0' && text[off] <= '9' {
		return ""
	}
	if off > 0 && isIdentChar(text[off-1]) {
		return ""
	}
	j := off
	for j < len(text) && isIdentChar(text[j]) {
		j++
	}
	return text[off:j]
}

var jsKeywords = map[string]bool{"var": true, "let": true, "const": true, "function": true, "return": true, "if": true, "else": true, "for": true, "while": true, "do": true, "switch": true, "case": true, "default": true,
	"break": true, "continue": true, "try": true, "catch": true, "finally": true, "throw": true, "new": true, "delete": true, "typeof": true, "void": true, "in": true, "of": true, "instanceof": true, "class": true,
	"extends": true, "super": true, "this": true, "null": true, "true": true, "false": true, "async": true, "await": true, "yield": true, "static": true, "get": true, "set": true, "import": true, "export": true, "from": true, "as": true, "undefined": true, "NaN": true, "Infinity": true}

type c07Replay struct {
	Files   map[string]string `json:"files"`
	Entries []string          `json:"entries"`
	OptName string            `json:"opt_name"`
	Diff    string            `json:"diff"`
}

// checkSourceMap validates one (code, map) pair against the original files (keyed by the path that
// appears in "sources" after resolving it against the map's directory).
// strictAlias: also report the recorded known finding (names of aliased imports), used by its probe
var strictAlias = false

// set by the caller when minify-syntax is on (string concatenations are folded: "a" + "b" maps to "a")
var foldsStringsFlag = false

// isImportAlias: does `src` import `imported as local` (or export it under that alias)?
func isImportAlias(src string, imported string, local string) bool {
	if strings.HasSuffix(imported, "_exports") || strings.HasSuffix(imported, "_default") || strings.HasPrefix(imported, "_") || strings.HasPrefix(imported, "import_") || strings.HasPrefix(imported, "require_") || strings.HasPrefix(imported, "init_") {
		return true // generated namespace object name / runtime helper
	}
	if local == "" {
		return false
	}
	if imported != "" && strings.Contains(src, imported+" as "+local) {
		return true
	}
	// default / namespace import: the local name stands for whatever the other module calls it
	if strings.Contains(src, "import "+local+" from") || strings.Contains(src, "* as "+local+" from") {
		return true
	}
	// `export default <expr>`: esbuild names the value <file>_default
	return local == "default" && strings.HasSuffix(imported, "_default") || strings.HasSuffix(imported, "_exports")
}

// isPrivateHelperName: name is `<x>_get`, `<x>_set` or `<x>_fn` and the source has a private member `#<x>`
func isPrivateHelperName(source string, name string) bool {
	for _, suffix := range []string{"_get", "_set", "_fn"} {
		if strings.HasSuffix(name, suffix) && strings.Contains(source, "#"+strings.TrimSuffix(name, suffix)) {
			return true
		}
	}
	return false
}

func checkSourceMap(code string, mapText string, resolveSource func(string) (string, bool), minifiedIdents bool, stat func(string)) [][2]string {
	var bad [][2]string
	foldsStrings := foldsStringsFlag
	add := func(c, w string) {
		if len(bad) < 6 {
			bad = append(bad, [2]string{c, w})
		}
	}
	var m smJSON
	if err := json.Unmarshal([]byte(mapText), &m); err != nil {
		add("map-not-json", err.Error())
		return bad
	}
	if m.Version != 3 {
		add("version", fmt.Sprint(m.Version))
	}
	segs, err := decodeMappings(m.Mappings)
	if err != nil {
		add("mappings-malformed", err.Error())
		return bad
	}
	sources := make([]string, len(m.Sources))
	srcStarts := make([][]int, len(m.Sources))
	for i, s := range m.Sources {
		content, ok := resolveSource(s)
		if !ok {
			// "sources" entries are URLs: non-ASCII path characters arrive percent-encoded
			if dec, err := url.PathUnescape(s); err == nil && dec != s {
				content, ok = resolveSource(dec)
			}
		}
		if !ok {
			add("source-unknown", fmt.Sprintf("sources[%d]=%q is not an input file", i, s))
			continue
		}
		sources[i] = content
		srcStarts[i] = lineStarts(content)
		if m.SourcesContent != nil {
			if i >= len(m.SourcesContent) || m.SourcesContent[i] == nil || *m.SourcesContent[i] != content {
				add("sources-content", fmt.Sprintf("sourcesContent[%d] differs from the text of %q", i, s))
			}
		}
	}
	genStarts := lineStarts(code)
	prevLine, prevCol := -1, -1
	var prevSeg smSegment
	havePrev := false
	for _, sg := range segs {
		if sg.GenLine < prevLine || sg.GenLine == prevLine && sg.GenCol < prevCol {
			add("not-sorted", fmt.Sprintf("segment (%d,%d) after (%d,%d)", sg.GenLine, sg.GenCol, prevLine, prevCol))
		}
		prevLine, prevCol = sg.GenLine, sg.GenCol
		gOff := offsetOf(code, genStarts, sg.GenLine, sg.GenCol)
		if gOff < 0 || gOff >= len(code) {
			add("generated-position-out-of-range", fmt.Sprintf("(%d,%d)", sg.GenLine, sg.GenCol))
			continue
		}
		if !sg.HasSource {
			continue
		}
		if sg.Src < 0 || sg.Src >= len(sources) {
			add("source-index-out-of-range", fmt.Sprint(sg.Src))
			continue
		}
		if srcStarts[sg.Src] == nil {
			continue
		}
		oOff := offsetOf(sources[sg.Src], srcStarts[sg.Src], sg.Line, sg.Col)
		if oOff < 0 {
			add("original-position-out-of-range", fmt.Sprintf("source %q (%d,%d)", m.Sources[sg.Src], sg.Line, sg.Col))
			continue
		}
		if sg.HasName && (sg.Name < 0 || sg.Name >= len(m.Names)) {
			add("name-index-out-of-range", fmt.Sprint(sg.Name))
			continue
		}
		stat("segments")
		// "cover lines without mappings": a line that does not start with a mapping gets a copy of the
		// previous mapping at column 0 (documented workaround for a Mozilla source-map bug). Such a
		// segment does not claim that a token starts there.
		if sg.GenCol == 0 && havePrev && prevSeg.Src == sg.Src && prevSeg.Line == sg.Line && prevSeg.Col == sg.Col {
			stat("line-start-copies")
			continue
		}
		prevSeg, havePrev = sg, true
		gTok := identAt(code, gOff)
		oTok := identAt(sources[sg.Src], oOff)
		if sg.HasName {
			// a recorded name is the original identifier at that position
			if oTok != m.Names[sg.Name] && (sg.Line == 0 && sg.Col == 0 || oTok == "import" || oTok == "export") {
				// generated wrapper code (export getters, lazy-init wrappers) is mapped to the start of the file
				stat("name-on-file-start")
			} else if oTok != m.Names[sg.Name] && oTok != "" && strings.HasPrefix(strings.TrimLeft(strings.TrimPrefix(strings.TrimLeft(sources[sg.Src][oOff+len(oTok):], " "), ":"), " "), m.Names[sg.Name]) {
				// `{ key: name }` binding: the mapping sits on the property key, the name is the bound identifier
				stat("name-on-destructuring-key")
			} else if oTok != m.Names[sg.Name] && !strictAlias && isImportAlias(sources[sg.Src], m.Names[sg.Name], oTok) {
				stat("alias-name-known-finding")
			} else if oTok != m.Names[sg.Name] && !strictAlias && isPrivateHelperName(sources[sg.Src], m.Names[sg.Name]) {
				// same known finding (generated names are recorded as names): the helper symbol `x_get` / `x_set` /
				// `x_fn` that a lowered private member `#x` is turned into, renamed because of a collision
				stat("generated-private-helper-name-known-finding")
			} else if oTok != m.Names[sg.Name] {
				add("name-not-original-identifier", fmt.Sprintf("segment (%d,%d)->%s(%d,%d) has name %q but the original token there is %q", sg.GenLine, sg.GenCol, m.Sources[sg.Src], sg.Line, sg.Col, m.Names[sg.Name], oTok))
			}
			stat("segments-with-name")
		}
		if gTok != "" && !jsKeywords[gTok] && !strings.HasPrefix(gTok, "__") && !strings.HasPrefix(gTok, "_") && !strings.HasPrefix(gTok, "import_") && !strings.HasPrefix(gTok, "require_") && !strings.HasPrefix(gTok, "init_") && !strings.HasSuffix(gTok, "_default") && !strings.HasSuffix(gTok, "_exports") {
			stat("ident-segments")
			if !minifiedIdents && oTok != gTok && sg.Line == 0 && sg.Col == 0 {
				// generated wrapper code (export getters, lazy-init wrappers) is mapped to the start of the file
				stat("ident-on-file-start")
			} else if !minifiedIdents && oTok != gTok {
				// renamed to avoid a collision: then the name must record the original
				if sg.HasName && m.Names[sg.Name] == oTok && oTok != "" {
					stat("renamed-with-name")
				} else if oOff > len(gTok) && sources[sg.Src][oOff-1] == '.' && strings.HasSuffix(sources[sg.Src][:oOff-1], gTok) {
					// `ns.prop`: esbuild maps the whole access to the position of the property name
					stat("namespace-access-mapped-at-property")
				} else if !strictAlias && (isImportAlias(sources[sg.Src], gTok, oTok) || sg.HasName && isImportAlias(sources[sg.Src], m.Names[sg.Name], oTok)) {
					stat("alias-ident-known-finding")
				} else if oTok != "" && !jsKeywords[oTok] && strings.HasPrefix(gTok, oTok) {
					stat("renamed-suffix")
				} else if oTok == "" || jsKeywords[oTok] {
					// generated identifier mapped to a non-identifier original position (e.g. the start of a
					// statement that was rewritten): accepted only for esbuild-introduced names
					stat("ident-to-non-ident")
					quotedKey := oOff < len(sources[sg.Src]) && (sources[sg.Src][oOff] == '"' || sources[sg.Src][oOff] == '\'' || sources[sg.Src][oOff] == '`')
					if isUserName(gTok) && !quotedKey {
						add("identifier-maps-to-wrong-token", fmt.Sprintf("generated identifier %q at (%d,%d) maps to %s(%d,%d) where the original has %q", gTok, sg.GenLine, sg.GenCol, m.Sources[sg.Src], sg.Line, sg.Col, peek(sources[sg.Src], oOff)))
					}
				} else if isUserName(gTok) {
					add("identifier-maps-to-wrong-token", fmt.Sprintf("generated identifier %q at (%d,%d) maps to %s(%d,%d) where the original identifier is %q", gTok, sg.GenLine, sg.GenCol, m.Sources[sg.Src], sg.Line, sg.Col, oTok))
				}
			}
		}
		// string literals: a generated string token must map to a string/template token
		if code[gOff] == '"' || code[gOff] == '\'' {
			var oc byte
			if oOff < len(sources[sg.Src]) {
				oc = sources[sg.Src][oOff]
			}
			if oOff < len(sources[sg.Src]) && oc != '"' && oc != '\'' && oc != '`' {
				stat("string-to-non-string")
			} else {
				stat("string-segments")
				g := plainString(code, gOff)
				o := plainString(sources[sg.Src], oOff)
				if g != "" && o != "" && g != o && !(strings.HasPrefix(o, "./") || strings.HasPrefix(o, "../")) && !foldsStrings && !strings.HasPrefix(g, o) {
					add("string-maps-to-wrong-token", fmt.Sprintf("generated string %q at (%d,%d) maps to original string %q", g, sg.GenLine, sg.GenCol, o))
				}
			}
		}
	}
	return bad
}

// names the generators use for user identifiers (see gen/js.go namePool, gen/graph.go)
func isUserName(s string) bool {
	if len(s) <= 3 {
		return true
	}
	for _, p := range []string{"foo", "bar", "let2", "yield2", "await2", "default2", "undefined2", "NaN2", "async", "type", "from", "late", "dyn", "unused", "maybe", "gone", "ns", "x10"} {
		if strings.HasPrefix(s, p) {
			return true
		}
	}
	return false
}

func peek(s string, off int) string {
	e := off + 12
	if e > len(s) {
		e = len(s)
	}
	return s[off:e]
}

// plainString returns the contents of a simple quoted string without escapes starting at off, else ""
func plainString(s string, off int) string {
	q := s[off]
	if q != '"' && q != '\'' {
		return ""
	}
	for j := off + 1; j < len(s); j++ {
		if s[j] == '\\' || s[j] == '\n' {
			return ""
		}
		if s[j] == q {
			if j == off+1 {
				return ""
			}
			return s[off+1 : j]
		}
	}
	return ""
}

// relayout inserts indentation, comments with non-ASCII/astral characters and CRLF line ends
func relayout(r *gen.Rand, src string) string {
	lines := strings.Split(src, "\n")
	var sb strings.Builder
	crlf := r.Chance(1, 3)
	for i, l := range lines {
		if i > 0 && strings.HasSuffix(lines[i-1], "\\") {
			// line continuation inside a string literal: leave the next line untouched
		} else {
			switch r.Intn(6) {
			case 0:
				sb.WriteString("\t\t")
			case 1:
				sb.WriteString("/* é😀 */ ")
			case 2:
				sb.WriteString("   ")
			case 3:
				sb.WriteString("/*𝒳*/")
			}
		}
		sb.WriteString(l)
		if i < len(lines)-1 {
			if crlf && !strings.HasSuffix(l, "\\") {
				sb.WriteString("\r\n")
			} else {
				sb.WriteString("\n")
			}
		}
	}
	return sb.String()
}

func init() {
	searches["c07-map"] = func(r *gen.Rand, count int, workdir string, rep *Report) {
		rep.Rule = "generated programs (re-laid out with tabs, comments containing non-ASCII and astral characters, CRLF) transformed, and generated module graphs bundled (x minify x splitting with hashed names x banner x sources-content x charset), with source maps; each map is decoded by an independent decoder and every segment is checked: sorted, indices in range, positions on character boundaries inside the files, sourcesContent equals the input text, a generated identifier maps to the same original identifier (or carries it as name), a recorded name is the original identifier at that position, string tokens map to the same string. non-trivial = map had >= 10 identifier segments"
		for i := 0; i < count; i++ {
			gr := r.Fork()
			if gr.Chance(2, 3) {
				// single file transform
				g := gen.NewJSGen(gr, gen.AllFeatures(), 60+gr.Intn(150))
				src := relayout(gr, g.Program(3+gr.Intn(5), 2+gr.Intn(3)))
				name := pickS(gr, "default", "mw", "ms", "mi", "ms,mi,mw", "ascii", "target=es2017", "fmt=iife", "fmt=cjs", "ll40", "mw,ll30")
				o := optsFromName(name)
				o.Sourcemap = api.SourceMapExternal
				o.Sourcefile = "input.js"
				if gr.Chance(1, 4) {
					o.Banner = "/* banner\nsecond line é */"
				}
				if gr.Chance(1, 4) {
					o.SourcesContent = api.SourcesContentExclude
				}
				res, pan := transformSafe(src, o)
				rep.Evaluations++
				if pan != "" {
					rep.violate("c07/panic", pan, progReplay{Source: src, OptName: name})
					continue
				}
				if len(res.Errors) > 0 {
					rep.stat("transform-error")
					continue
				}
				idents := 0
				foldsStringsFlag = strings.Contains(name, "ms")
				bad := checkSourceMap(string(res.Code), string(res.Map), func(s string) (string, bool) { return src, s == "input.js" }, strings.Contains(name, "mi"), func(k string) {
					rep.stat(k)
					if k == "ident-segments" {
						idents++
					}
				})
				if idents >= 10 {
					rep.DistinctNontrivial++
				}
				for _, b := range bad {
					rep.violate("c07/"+b[0], b[1]+" [transform "+name+"]", progReplay{Source: src, OptName: name, Output: string(res.Code), Diff: b[1]})
				}
				if len(rep.Samples) < 1 {
					rep.Samples = append(rep.Samples, map[string]interface{}{"kind": "transform", "opt": name, "source": src, "mappings": string(res.Map)[:min(300, len(res.Map))]})
				}
				continue
			}
			// bundled graph
			ents := 1 + gr.Intn(2)
			g := gen.GenGraph(gr, gen.GraphOpts{Modules: ents + 1 + gr.Intn(4), Entries: ents, AllowCJS: gr.Chance(1, 3), AllowDyn: gr.Bool(), AllowCycle: gr.Bool(), AllowStar: gr.Bool(), SideEffectFreeDecls: true, AvoidInPlaceOrder: true})
			files := map[string]string{}
			for k, c := range g.Files {
				if strings.HasSuffix(k, ".js") || strings.HasSuffix(k, ".cjs") {
					c = relayout(gr, c)
				}
				files[k] = c
			}
			// several lines that each contain a substituted chunk path followed by more mapped tokens
			// (sometimes with non-ASCII file names: final paths whose UTF-8 and UTF-16 lengths differ)
			dx1, dx2 := "dynx1.js", "dynx2.js"
			if gr.Chance(1, 3) {
				dx1, dx2 = "dÿnx-страница.js", "資産😀2.js"
				rep.stat("non-ascii-chunk-names")
			}
			files[dx1] = "export const k1 = 1;\np(\"dynx1\");\n"
			files[dx2] = "export const k2 = 2;\np(\"dynx2\");\n"
			files[g.Entries[0]] += "const zeta = p(\"zeta\", 5);\nimport(\"./" + dx1 + "\").then(d1 => p(\"d1\", d1.k1, zeta));\nimport(\"./" + dx2 + "\").then(d2 => p(\"d2\", d2.k2, zeta)); import(\"./" + dx1 + "\").then(d3 => p(\"d3\", d3.k1, zeta));\np(\"tail\", zeta);\n"
			// an input that itself carries a multi-source source map (a library bundled in a first stage)
			twoStage := gr.Chance(1, 3)
			if twoStage {
				lib := map[string]string{
					"libsrc/part1.js": relayout(gr, "export function libOne(argOne) {\n  return p(\"one\", argOne);\n}\n"),
					"libsrc/part2.js": relayout(gr, "import { libOne } from \"./part1.js\";\nexport function libTwo(argTwo) {\n  const localTwo = libOne(argTwo);\n  return p(\"two\", localTwo);\n}\n"),
					"libsrc/part3.js": relayout(gr, "export { libTwo } from \"./part2.js\";\nexport const libThree = p(\"three\", 3);\n"),
				}
				libDir := filepath.Join(workdir, fmt.Sprintf("c07-%d-lib", i))
				os.RemoveAll(libDir)
				writeTree(libDir, lib)
				lres, _ := buildSafe(buildOptsFromName("fmt=esm,sourcemap=linked", libDir, []string{"libsrc/part3.js"}, "gen"))
				ok := len(lres.Errors) == 0 && len(lres.OutputFiles) == 2
				for _, f := range lres.OutputFiles {
					rel, _ := filepath.Rel(libDir, f.Path)
					files[filepath.ToSlash(rel)] = string(f.Contents)
				}
				os.RemoveAll(libDir)
				if ok {
					for k, c := range lib {
						files[k] = c
					}
					files[g.Entries[0]] = "import { libTwo, libThree } from \"./gen/part3.js\";\n" + files[g.Entries[0]] + "p(\"lib\", libTwo(libThree), zeta);\n"
					rep.stat("two-stage")
				}
			}
			v := "fmt=esm,sourcemap=external"
			if ents > 1 || gr.Bool() {
				v += ",splitting,entrynames=[name]-[hash],chunknames=chunks/[name]-[hash]"
			}
			if strings.Contains(v, "splitting") && gr.Chance(1, 4) {
				v += ",publicpath=https://cdn.example/資産/"
			}
			v += pickS(gr, "", "", ",mw", ",ms,mi,mw", ",ascii")
			if gr.Chance(1, 4) {
				v += ",publicpath=https://cdn.example/assets/"
			}
			dir := filepath.Join(workdir, fmt.Sprintf("c07-%d", i))
			os.RemoveAll(dir)
			writeTree(dir, files)
			bo := buildOptsFromName(v, dir, g.Entries, "out")
			if gr.Chance(1, 4) {
				bo.Banner = map[string]string{"js": "/* banner line 1\n line 2 */"}
			}
			res, pan := buildSafe(bo)
			rep.Evaluations++
			if pan != "" {
				rep.violate("c07/panic", pan, c07Replay{Files: files, Entries: g.Entries, OptName: v})
				os.RemoveAll(dir)
				continue
			}
			if len(res.Errors) > 0 {
				rep.stat("build-error")
				os.RemoveAll(dir)
				continue
			}
			outs := map[string]string{}
			for _, f := range res.OutputFiles {
				outs[f.Path] = string(f.Contents)
			}
			idents := 0
			foldsStringsFlag = strings.Contains(v, "ms")
			for p, code := range outs {
				if !strings.HasSuffix(p, ".js") {
					continue
				}
				mp, ok := outs[p+".map"]
				if !ok {
					rep.violate("c07/map-missing", "no .map emitted for "+p, c07Replay{Files: files, Entries: g.Entries, OptName: v})
					continue
				}
				mapDir := filepath.Dir(p)
				bad := checkSourceMap(code, mp, func(s string) (string, bool) {
					abs := filepath.Join(mapDir, s)
					rel, err := filepath.Rel(dir, abs)
					if err != nil {
						return "", false
					}
					c, ok := files[filepath.ToSlash(rel)]
					return c, ok
				}, strings.Contains(v, "mi"), func(k string) {
					rep.stat(k)
					if k == "ident-segments" {
						idents++
					}
				})
				for _, b := range bad {
					rep.violate("c07/"+b[0], b[1]+" [bundle "+v+"]", c07Replay{Files: files, Entries: g.Entries, OptName: v, Diff: b[1]})
				}
			}
			if idents >= 10 {
				rep.DistinctNontrivial++
			}
			os.RemoveAll(dir)
		}
	}
	replays["c07-map"] = func(c json.RawMessage, workdir string, rep *Report) {
		strictAlias = true
		var pr progReplay
		json.Unmarshal(c, &pr)
		rep.Evaluations = 1
		if pr.Source != "" {
			o := optsFromName(pr.OptName)
			o.Sourcemap = api.SourceMapExternal
			o.Sourcefile = "input.js"
			res, _ := transformSafe(pr.Source, o)
			for _, b := range checkSourceMap(string(res.Code), string(res.Map), func(s string) (string, bool) { return pr.Source, s == "input.js" }, strings.Contains(pr.OptName, "mi"), func(string) {}) {
				rep.violate("replay/"+b[0], b[1], nil)
			}
			return
		}
		var cr c07Replay
		json.Unmarshal(c, &cr)
		dir := filepath.Join(workdir, "c07-replay")
		os.RemoveAll(dir)
		writeTree(dir, cr.Files)
		res, _ := buildSafe(buildOptsFromName(cr.OptName, dir, cr.Entries, "out"))
		outs := map[string]string{}
		for _, f := range res.OutputFiles {
			outs[f.Path] = string(f.Contents)
		}
		for p, code := range outs {
			if mp, ok := outs[p+".map"]; ok {
				mapDir := filepath.Dir(p)
				for _, b := range checkSourceMap(code, mp, func(s string) (string, bool) {
					rel, _ := filepath.Rel(dir, filepath.Join(mapDir, s))
					c, ok := cr.Files[filepath.ToSlash(rel)]
					return c, ok
				}, strings.Contains(cr.OptName, "mi"), func(string) {}) {
					rep.violate("replay/"+b[0], b[1], nil)
				}
			}
		}
	}
	_ = base64.StdEncoding
}

func min(a, b int) int {
	if a < b {
		return a
	}
	return b
}
