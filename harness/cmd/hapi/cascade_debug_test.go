package main

import (
	"fmt"
	"os"
	"testing"
)

func TestCascadeDebug(t *testing.T) {
	src, _ := os.ReadFile(os.Getenv("CSS_IN"))
	sh, err := parseCSS(string(src))
	fmt.Println("err:", err, "layers:", sh.LayerOrder)
	for _, r := range sh.Rules {
		fmt.Printf("rule %v layer=%q conds=%v decls=%v\n", r.Selectors, r.Layer, r.Conds, r.Decls)
	}
	el := cssElement{Tag: "div", Classes: map[string]bool{"c": true}}
	fmt.Println(computeWinners(sh, el, cssEnv{}))
}
