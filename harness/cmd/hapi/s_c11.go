package main

import (
	"bufio"
	"encoding/json"
	"fmt"
	"os"
	"os/exec"
	"path/filepath"
	"sort"
	"strings"

	"github.com/evanw/esbuild/pkg/api"
	"github.com/evanw/esbuild/verifharness/gen"
)

// C11: with platform node, Node's conditions and main fields, esbuild resolves what Node resolves
// (to the same file) and rejects what Node rejects because of an exports/imports map.

type c11Query struct {
	ID       int    `json:"id"`
	Importer string `json:"importer"`
	Spec     string `json:"spec"`
	Kind     string `json:"kind"`
}
type c11Answer struct {
	ID   int    `json:"id"`
	OK   bool   `json:"ok"`
	Path string `json:"path"`
	Code string `json:"code"`
}

type c11Replay struct {
	Files    map[string]string `json:"files"`
	Links    map[string]string `json:"symlinks,omitempty"`
	Importer string            `json:"importer"`
	Spec     string            `json:"spec"`
	Kind     string            `json:"kind"`
	Node     string            `json:"node"`
	Esbuild  string            `json:"esbuild"`
}

func runResolveOracle(qs []c11Query, workdir string) (map[int]c11Answer, error) {
	in := filepath.Join(workdir, "resolve-cases.json")
	out := filepath.Join(workdir, "resolve-results.jsonl")
	js, _ := json.Marshal(qs)
	os.WriteFile(in, js, 0644)
	cmd := exec.Command("node", "--experimental-import-meta-resolve", "--no-warnings", filepath.Join(nodeDir(), "resolve-oracle.mjs"), in, out)
	if b, err := cmd.CombinedOutput(); err != nil {
		return nil, fmt.Errorf("resolve oracle: %v: %s", err, string(b))
	}
	res := map[int]c11Answer{}
	f, err := os.Open(out)
	if err != nil {
		return nil, err
	}
	defer f.Close()
	sc := bufio.NewScanner(f)
	for sc.Scan() {
		var a c11Answer
		if json.Unmarshal(sc.Bytes(), &a) == nil {
			res[a.ID] = a
		}
	}
	return res, nil
}

// exportsValue generates an exports/imports target grammar value (JSON text)
func exportsTarget(r *gen.Rand, depth int, files *[]string) string {
	mk := func(p string) string {
		*files = append(*files, p)
		return fmt.Sprintf("%q", "./"+p)
	}
	if r.Chance(1, 5) {
		// decision-logic corner cases of PACKAGE_TARGET_RESOLVE: null blocks, all-null arrays, nested conditions
		*files = append(*files, "a.js", "d.mjs")
		return pickS(r, "{\"node\": [null], \"default\": \"./a.js\"}", "{\"import\": [null], \"require\": [null, null], \"default\": \"./a.js\"}", "{\"node\": null, \"default\": \"./a.js\"}",
			"{\"unknown-cond\": \"./a.js\", \"default\": null}", "[{\"import\": \"./d.mjs\"}, \"./a.js\"]", "{\"node\": {\"import\": null, \"default\": \"./a.js\"}}",
			"{\"node\": [{\"unknown-cond\": \"./d.mjs\"}, null], \"default\": \"./a.js\"}", "{\"node\": {\"unknown-cond\": \"./d.mjs\"}, \"default\": \"./a.js\"}", "[null, \"./a.js\"]", "[\"../bad.js\", \"./a.js\"]")
	}
	switch r.Intn(10) {
	case 0, 1, 2, 3:
		return mk(pickS(r, "a.js", "lib/b.js", "c.cjs", "d.mjs", "src/e.js"))
	case 4:
		return "null"
	case 5:
		return pickS(r, "\"../escape.js\"", "\"./node_modules/x.js\"", "\"notrelative.js\"", "\"./a/../b.js\"", "123", "\"/abs.js\"", "\"./%2e%2e/x.js\"")
	case 6:
		if r.Chance(1, 3) {
			// arrays whose elements are all null / invalid: the result is null (blocks the path) or the
			// last error, never "undefined" (which would let a later condition apply)
			return pickS(r, "[null]", "[null, null]", "[\"../bad.js\", null]", "[null, \"../bad.js\"]", "[]", "[{\"unknown-cond\": \"./a.js\"}, null]", "[{\"unknown-cond\": \"./a.js\"}]")
		}
		if depth > 0 {
			n := 1 + r.Intn(3)
			parts := []string{}
			for i := 0; i < n; i++ {
				parts = append(parts, exportsTarget(r, depth-1, files))
			}
			return "[" + strings.Join(parts, ", ") + "]"
		}
		return mk("a.js")
	default:
		if depth > 0 {
			conds := []string{"import", "require", "node", "default", "default", "node", "browser", "unknown-cond", "node-addons", "development"}
			n := 1 + r.Intn(4)
			seen := map[string]bool{}
			parts := []string{}
			for i := 0; i < n; i++ {
				c := conds[r.Intn(len(conds))]
				if seen[c] {
					continue
				}
				seen[c] = true
				parts = append(parts, fmt.Sprintf("%q: %s", c, exportsTarget(r, depth-1, files)))
			}
			return "{" + strings.Join(parts, ", ") + "}"
		}
		return mk("lib/b.js")
	}
}

func c11Tree(r *gen.Rand) (files map[string]string, links map[string]string, importers []string, specs []string) {
	files = map[string]string{}
	links = map[string]string{}
	var pkgFiles []string
	// package "dep": exports map
	entries := []string{}
	keys := []string{".", "./feature", "./features/*", "./features/*.js", "./internal/*", "./deep/*/x", "./*", "./package.json", "./a", "./features/special.js"}
	n := 1 + r.Intn(5)
	seen := map[string]bool{}
	for i := 0; i < n; i++ {
		k := keys[r.Intn(len(keys))]
		if seen[k] {
			continue
		}
		seen[k] = true
		var t string
		if strings.Contains(k, "*") && r.Chance(2, 3) {
			t = pickS(r, "\"./src/features/*.js\"", "\"./src/*\"", "null", "\"./lib/*/index.js\"", "{\"import\": \"./esm/*.mjs\", \"default\": \"./src/features/*.js\"}", "[null, \"./src/*\"]", "\"./src/*.js\"")
		} else {
			t = exportsTarget(r, 2, &pkgFiles)
		}
		entries = append(entries, fmt.Sprintf("%q: %s", k, t))
	}
	exportsJSON := "{" + strings.Join(entries, ", ") + "}"
	if r.Chance(1, 6) {
		exportsJSON = exportsTarget(r, 2, &pkgFiles) // sugar: exports is the "." target
	}
	pkg := map[string]string{"name": "\"dep\"", "main": pickS(r, "\"./main.js\"", "\"./lib/b.js\"", "\"./missing.js\"", "\"./src\"")}
	if r.Chance(4, 5) {
		pkg["exports"] = exportsJSON
	}
	if r.Chance(1, 3) {
		pkg["type"] = pickS(r, "\"module\"", "\"commonjs\"")
	}
	if r.Chance(1, 2) {
		imps := []string{}
		for _, k := range []string{"#priv", "#feat/*", "#dep"} {
			if r.Bool() {
				t := exportsTarget(r, 1, &pkgFiles)
				if k == "#feat/*" {
					t = pickS(r, "\"./src/features/*.js\"", "null", "{\"node\": \"./src/features/*.js\", \"default\": null}")
				}
				if k == "#dep" {
					t = pickS(r, "\"other\"", "\"other/sub\"")
				}
				imps = append(imps, fmt.Sprintf("%q: %s", k, t))
			}
		}
		pkg["imports"] = "{" + strings.Join(imps, ", ") + "}"
	}
	pk := []string{}
	for _, k := range []string{"name", "main", "type", "exports", "imports"} {
		if v, ok := pkg[k]; ok {
			pk = append(pk, fmt.Sprintf("%q: %s", k, v))
		}
	}
	root := "node_modules/dep/"
	nested := r.Chance(1, 3)
	if nested {
		// a nested copy that exports less, plus a hoisted copy that exports more
		root = "node_modules/app/node_modules/dep/"
		files["node_modules/dep/package.json"] = "{\"name\": \"dep\", \"main\": \"./main.js\", \"exports\": {\".\": \"./main.js\", \"./feature\": \"./a.js\", \"./features/*\": \"./src/features/*.js\", \"./internal/*\": \"./src/*\"}}"
		for _, f := range []string{"main.js", "a.js", "src/features/x.js", "src/features/special.js", "src/y.js"} {
			files["node_modules/dep/"+f] = "module.exports = \"hoisted " + f + "\";\n"
		}
	}
	files[root+"package.json"] = "{" + strings.Join(pk, ", ") + "}"
	for _, f := range append(pkgFiles, "main.js", "a.js", "lib/b.js", "c.cjs", "d.mjs", "src/e.js", "src/features/x.js", "src/features/special.js", "src/features/x.js.js", "src/index.js", "src/y.js", "esm/x.mjs", "lib/x/index.js", "index.js", "feature.js", "features/x.js") {
		if r.Chance(9, 10) {
			files[root+f] = "module.exports = \"dep " + f + "\";\n"
		}
	}
	// another package without exports, scoped package, self reference
	files["node_modules/other/package.json"] = "{\"name\": \"other\", \"main\": \"lib/main\"}"
	files["node_modules/other/lib/main.js"] = "module.exports = 1;\n"
	files["node_modules/other/sub.js"] = "module.exports = 2;\n"
	files["node_modules/other/sub/index.js"] = "module.exports = 3;\n"
	files["node_modules/@scope/pkg/package.json"] = "{\"name\": \"@scope/pkg\", \"exports\": {\".\": {\"require\": \"./r.cjs\", \"import\": \"./i.mjs\"}, \"./sub\": \"./s.js\"}}"
	files["node_modules/@scope/pkg/r.cjs"] = "module.exports = 1;\n"
	files["node_modules/@scope/pkg/i.mjs"] = "export default 1;\n"
	files["node_modules/@scope/pkg/s.js"] = "module.exports = 1;\n"
	files["node_modules/nomain/index.js"] = "module.exports = 1;\n"
	files["node_modules/nomain/package.json"] = "{\"name\": \"nomain\"}"
	files["node_modules/app/package.json"] = "{\"name\": \"app\", \"exports\": {\".\": \"./index.js\", \"./self\": \"./selfref.js\"}, \"imports\": {\"#own\": \"./own.js\"}}"
	files["node_modules/app/index.js"] = "module.exports = \"app\";\n"
	files["node_modules/app/selfref.js"] = "module.exports = \"self\";\n"
	files["node_modules/app/own.js"] = "module.exports = \"own\";\n"
	files["src/index.js"] = "module.exports = 0;\n"
	files["src/rel.js"] = "module.exports = 0;\n"
	files["src/dir/index.js"] = "module.exports = 0;\n"
	files["src/both.js"] = "module.exports = 0;\n"
	files["src/both/index.js"] = "module.exports = 0;\n"
	files["src/data.json"] = "{}\n"
	files["package.json"] = "{\"name\": \"root\"}"
	if r.Chance(1, 3) {
		links["node_modules/linked"] = "../linkedpkg"
		files["linkedpkg/package.json"] = "{\"name\": \"linked\", \"main\": \"./m.js\"}"
		files["linkedpkg/m.js"] = "module.exports = 1;\n"
	}
	extra := []string{}
	if r.Chance(1, 3) {
		// links inside links: a linked package (store layout) one of whose directories is itself a link into
		// another place of the store, and a linked directory below a linked directory
		links["node_modules/spkg"] = "../store/spkg"
		links["store/spkg/lib"] = "../shared/lib"
		links["store/shared/lib/deep"] = "../../far/deep"
		files["store/spkg/package.json"] = "{\"name\": \"spkg\", \"main\": \"./lib/m.js\"}"
		files["store/spkg/top.js"] = "module.exports = 1;\n"
		files["store/shared/lib/m.js"] = "module.exports = 2;\n"
		files["store/shared/lib/sub/index.js"] = "module.exports = 3;\n"
		files["store/far/deep/d.js"] = "module.exports = 4;\n"
		files["store/far/deep/package.json"] = "{\"main\": \"./d.js\"}"
		extra = []string{"spkg", "spkg/top", "spkg/lib/m.js", "spkg/lib/m", "spkg/lib/sub", "spkg/lib/deep/d.js", "spkg/lib/deep", "../node_modules/spkg/lib/m.js", "../store/spkg/lib/deep/d"}
	}
	importers = []string{"src/index.js", "node_modules/app/index.js", root + "main.js"}
	specs = []string{"dep", "dep/feature", "dep/features/x", "dep/features/x.js", "dep/features/special.js", "dep/internal/y", "dep/deep/q/x", "dep/a", "dep/a.js", "dep/lib/b.js", "dep/package.json", "dep/nope", "dep/src/y.js",
		"#priv", "#feat/x", "#dep", "#own", "#missing", "app", "app/self", "other", "other/sub", "other/sub.js", "other/lib/main", "@scope/pkg", "@scope/pkg/sub", "@scope/pkg/r.cjs", "nomain", "linked",
		"./rel", "./rel.js", "./dir", "./both", "./data.json", "../src/rel.js", "./missing", "dep/features/x?query"}
	for i := 0; i < 3; i++ { // weight: as likely as the rest together would drown them
		specs = append(specs, extra...)
	}
	return
}

func esbuildResolve(dir string, importerRel string, spec string, kind string, workfile string) (string, string) {
	// a throw-away importer next to the real one, so the resolution starts from the same directory
	imp := filepath.Join(dir, filepath.Dir(importerRel), workfile)
	var code string
	ext := ".cjs"
	if kind == "import" {
		code = fmt.Sprintf("import %q;\n", spec)
		ext = ".mjs"
	} else {
		code = fmt.Sprintf("require(%q);\n", spec)
	}
	imp += ext
	os.WriteFile(imp, []byte(code), 0644)
	defer os.Remove(imp)
	res := api.Build(api.BuildOptions{LogLevel: api.LogLevelSilent, AbsWorkingDir: dir, EntryPoints: []string{imp}, Bundle: true, Write: false, Outdir: filepath.Join(dir, "out"),
		Platform: api.PlatformNode, Format: api.FormatCommonJS, Metafile: true, MainFields: []string{"main"}, Conditions: []string{"node-addons"}, // Node's own condition set: node, node-addons, import|require, default
		Loader: map[string]api.Loader{".json": api.LoaderJSON}, PreserveSymlinks: false})
	if len(res.Errors) > 0 {
		return "", "error: " + res.Errors[0].Text
	}
	var m metafile
	json.Unmarshal([]byte(res.Metafile), &m)
	rel, _ := filepath.Rel(dir, imp)
	in, ok := m.Inputs[filepath.ToSlash(rel)]
	if !ok || len(in.Imports) == 0 {
		return "", "error: no import recorded"
	}
	if in.Imports[0].External {
		return "", "external"
	}
	// NOT passed through EvalSymlinks: without preserve-symlinks the path esbuild reports must already be
	// the real path (dir is real), as Node's is; a half-resolved path (nested links) is a difference
	return filepath.Join(dir, in.Imports[0].Path), ""
}

func c11RunCase(rep *Report, dir string, files, links map[string]string, importers, specs []string, r *gen.Rand, nq int, class string) {
	os.RemoveAll(dir)
	writeTree(dir, files)
	for l, t := range links {
		os.MkdirAll(filepath.Dir(filepath.Join(dir, l)), 0755)
		os.Symlink(t, filepath.Join(dir, l))
	}
	realDir, _ := filepath.EvalSymlinks(dir)
	var qs []c11Query
	for i := 0; i < nq; i++ {
		imp := importers[r.Intn(len(importers))]
		if _, ok := files[imp]; !ok {
			imp = "src/index.js"
		}
		qs = append(qs, c11Query{ID: i, Importer: filepath.Join(realDir, imp), Spec: specs[r.Intn(len(specs))], Kind: pickS(r, "import", "require")})
	}
	ans, err := runResolveOracle(qs, dir)
	if err != nil {
		rep.stat("oracle-error")
		fmt.Fprintln(os.Stderr, err)
		return
	}
	for _, q := range qs {
		a, ok := ans[q.ID]
		if !ok {
			rep.Inconclusive++
			continue
		}
		rep.Evaluations++
		impRel, _ := filepath.Rel(realDir, q.Importer)
		got, errText := esbuildResolve(realDir, impRel, q.Spec, q.Kind, fmt.Sprintf("__verif_importer_%d", q.ID))
		mk := func(node, es string) c11Replay {
			return c11Replay{Files: files, Links: links, Importer: impRel, Spec: q.Spec, Kind: q.Kind, Node: node, Esbuild: es}
		}
		if a.OK {
			rep.stat("node-resolves")
			rep.DistinctNontrivial++
			if !strings.HasPrefix(a.Path, "/") {
				continue // builtin (node:xyz)
			}
			if errText != "" {
				suffix := ""
				for k, c := range files {
					if strings.HasSuffix(k, "package.json") && strings.Contains(strings.ToLower(c), "%2e") {
						// a target with a percent-encoded dot segment is an Invalid Package Target for Node (skipped inside an
						// array), esbuild's findInvalidSegment only knows the plain spellings: recorded known finding
						suffix = ":percent-encoded-segment"
					}
				}
				rep.violate(class+"/esbuild-fails-where-node-resolves"+suffix, fmt.Sprintf("%s %q from %s: Node resolves to %s, esbuild: %s", q.Kind, q.Spec, impRel, a.Path, errText), mk(a.Path, errText))
			} else if got != a.Path {
				rep.violate(class+"/resolves-to-different-file", fmt.Sprintf("%s %q from %s: Node resolves to %s, esbuild to %s", q.Kind, q.Spec, impRel, a.Path, got), mk(a.Path, got))
			}
		} else {
			rep.stat("node-rejects:" + a.Code)
			switch a.Code {
			case "ERR_PACKAGE_PATH_NOT_EXPORTED", "ERR_INVALID_PACKAGE_TARGET", "ERR_PACKAGE_IMPORT_NOT_DEFINED":
				rep.DistinctNontrivial++
				if errText == "" {
					rep.violate(class+"/esbuild-resolves-what-node-rejects", fmt.Sprintf("%s %q from %s: Node rejects with %s, esbuild resolves to %s", q.Kind, q.Spec, impRel, a.Code, got), mk(a.Code, got))
				}
			}
		}
	}
}

func init() {
	searches["c11-resolve"] = func(r *gen.Rand, count int, workdir string, rep *Report) {
		rep.Rule = "package trees generated from the package.json resolution grammar (exports/imports as string, array, nested condition objects in random key order, overlapping * patterns, invalid targets, null; nested + hoisted copies, scoped packages, self reference, symlinked package, links inside links (store layout; esbuild's reported path is compared unresolved with Node's real path), packages without main, index files, type) and specifiers (bare, subpath, #imports, relative, query, percent-encoded) x {import, require}; Node itself (createRequire().resolve / import.meta.resolve) is the oracle; esbuild runs with platform=node, mainFields=[main], no extra conditions. non-trivial = Node resolved the specifier or rejected it because of an exports/imports map"
		perTree := 12
		for done := 0; done < count; done += perTree {
			gr := r.Fork()
			files, links, importers, specs := c11Tree(gr)
			c11RunCase(rep, filepath.Join(workdir, fmt.Sprintf("c11-%d", (done/perTree)%4)), files, links, importers, specs, gr, perTree, "c11")
			if len(rep.Samples) < 1 {
				keys := []string{}
				for k := range files {
					keys = append(keys, k)
				}
				sort.Strings(keys)
				rep.Samples = append(rep.Samples, map[string]interface{}{"dep_package_json": files["node_modules/dep/package.json"] + files["node_modules/app/node_modules/dep/package.json"], "files": keys})
			}
		}
	}
	replays["c11-resolve"] = func(c json.RawMessage, workdir string, rep *Report) {
		var cr c11Replay
		json.Unmarshal(c, &cr)
		dir := filepath.Join(workdir, "c11-replay")
		os.RemoveAll(dir)
		writeTree(dir, cr.Files)
		for l, t := range cr.Links {
			os.MkdirAll(filepath.Dir(filepath.Join(dir, l)), 0755)
			os.Symlink(t, filepath.Join(dir, l))
		}
		realDir, _ := filepath.EvalSymlinks(dir)
		ans, err := runResolveOracle([]c11Query{{ID: 0, Importer: filepath.Join(realDir, cr.Importer), Spec: cr.Spec, Kind: cr.Kind}}, dir)
		if err != nil {
			return
		}
		rep.Evaluations = 1
		got, errText := esbuildResolve(realDir, cr.Importer, cr.Spec, cr.Kind, "__verif_importer_r")
		a := ans[0]
		if a.OK && strings.HasPrefix(a.Path, "/") && (errText != "" || got != a.Path) {
			rep.violate("replay/differs", fmt.Sprintf("node %s esbuild %s %s", a.Path, got, errText), nil)
		}
		if !a.OK && (a.Code == "ERR_PACKAGE_PATH_NOT_EXPORTED" || a.Code == "ERR_INVALID_PACKAGE_TARGET" || a.Code == "ERR_PACKAGE_IMPORT_NOT_DEFINED") && errText == "" {
			rep.violate("replay/esbuild-resolves-what-node-rejects", got, nil)
		}
	}
}
