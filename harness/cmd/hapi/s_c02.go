package main

import (
	"encoding/json"
	"fmt"
	"os"
	"path/filepath"
	"strings"

	"github.com/evanw/esbuild/verifharness/gen"
)

type c02Case struct {
	g        *gen.Graph
	dir      string
	variants []string
	noNative bool // Node cannot run the sources: the first variant is the reference instead of native execution
}

func c02Variants(r *gen.Rand, allowNoShake bool) []string {
	vs := []string{"fmt=esm", "fmt=cjs,platform=node", "fmt=iife,global=G"}
	extra := []string{"fmt=esm,ms,mi,mw", "fmt=cjs,ms", "fmt=esm,platform=neutral", "fmt=esm,platform=browser,mi", "fmt=iife,global=G,ms,mw"}
	if allowNoShake {
		extra = []string{"fmt=esm,shake=false", "fmt=cjs,platform=node,shake=false,mi", "fmt=iife,global=G,shake=false"}
	}
	vs = append(vs, extra[r.Intn(len(extra))])
	return vs
}

// runC02 builds each variant of each graph, runs native + bundles in Node and compares
func runGraphDiff(rep *Report, workdir string, class string, cases []c02Case, compareExports bool) {
	gcases := []graphCase{}
	type meta struct {
		c        c02Case
		outputs  map[string]map[string]string
		variants []string
	}
	metas := map[int]*meta{}
	for i, c := range cases {
		dir := filepath.Join(workdir, fmt.Sprintf("case-%d", i))
		os.RemoveAll(dir)
		src := filepath.Join(dir, "src")
		if err := writeTree(src, c.g.Files); err != nil {
			panic(err)
		}
		c.dir = dir
		gc := graphCase{ID: i}
		entryKind := "esm"
		if strings.HasSuffix(c.g.Entries[0], ".cjs") {
			entryKind = "cjs"
		}
		if !c.noNative {
			gc.Runs = append(gc.Runs, graphRun{Name: "native", File: filepath.Join(src, c.g.Entries[0]), Kind: entryKind})
		}
		m := &meta{c: c, outputs: map[string]map[string]string{}}
		for vi, v := range c.variants {
			outdir := filepath.Join(dir, fmt.Sprintf("out-%d", vi))
			o := buildOptsFromName(v, src, []string{c.g.Entries[0]}, outdir)
			res, pan := buildSafe(o)
			if pan != "" {
				rep.violate(class+"/panic", "esbuild panicked: "+pan, graphReplay{Files: c.g.Files, Entries: c.g.Entries, OptName: v})
				continue
			}
			if len(res.Errors) > 0 {
				rep.stat("build-error")
				rep.violate(class+"/build-error", "bundling a valid module graph failed: "+msgsText(res.Errors), graphReplay{Files: c.g.Files, Entries: c.g.Entries, OptName: v, Diff: msgsText(res.Errors)})
				continue
			}
			kind := "iife"
			pkg := "{\"type\": \"commonjs\"}"
			if strings.Contains(v, "fmt=esm") {
				kind = "esm"
				pkg = "{\"type\": \"module\"}"
			} else if strings.Contains(v, "fmt=cjs") {
				kind = "cjs"
			}
			os.MkdirAll(outdir, 0755)
			os.WriteFile(filepath.Join(outdir, "package.json"), []byte(pkg), 0644)
			outs := map[string]string{}
			var entryOut string
			for _, f := range res.OutputFiles {
				os.MkdirAll(filepath.Dir(f.Path), 0755)
				os.WriteFile(f.Path, f.Contents, 0644)
				rel, _ := filepath.Rel(outdir, f.Path)
				outs[rel] = string(f.Contents)
				if entryOut == "" && strings.HasSuffix(f.Path, ".js") {
					entryOut = f.Path
				}
			}
			m.outputs[v] = outs
			gr := graphRun{Name: v, File: entryOut, Kind: kind}
			if kind == "iife" {
				gr.GlobalName = "G"
			}
			gc.Runs = append(gc.Runs, gr)
			m.variants = append(m.variants, v)
		}
		metas[i] = m
		gcases = append(gcases, gc)
	}
	results, err := runGraphNode(gcases, workdir, 12)
	if err != nil {
		rep.stat("node-runner-error")
		fmt.Fprintln(os.Stderr, err)
	}
	for i := range cases {
		rs := results[i]
		m := metas[i]
		if len(rs) == 0 {
			rep.Inconclusive++
			continue
		}
		rep.Evaluations++
		native := rs[0]
		if len(native.Trace) >= 3 {
			rep.DistinctNontrivial++
		}
		if native.Outcome == "ok" {
			rep.stat("native-ok")
		} else {
			rep.stat("native-throw")
		}
		for _, r := range rs[1:] {
			rep.stat("compared")
			if ok, why := sameGraphResult(native, r, compareExports); !ok {
				refName := "native execution"
				if m.c.noNative {
					refName = "reference bundle " + m.variants[0]
				}
				rep.violate(class+"/diff/"+r.Name, refName+" and bundle differ: "+why, graphReplay{Files: m.c.g.Files, Entries: m.c.g.Entries, OptName: r.Name, Diff: why, Outputs: m.outputs[r.Name]})
			}
		}
		if len(rep.Samples) < 2 {
			rep.Samples = append(rep.Samples, map[string]interface{}{"files": m.c.g.Files, "native_trace": native.Trace, "native_exports": native.Exports})
		}
		os.RemoveAll(filepath.Join(workdir, fmt.Sprintf("case-%d", i)))
	}
}

func init() {
	searches["c02-graph"] = func(r *gen.Rand, count int, workdir string, rep *Report) {
		rep.Rule = "random module graphs (gen/graph.go: ESM + CommonJS modules, named/default/namespace/side-effect imports, re-exports, export *, cycles incl. self-imports, live bindings mutated through exported functions, one dynamic import) loaded natively by Node 20 and as esm/cjs/iife bundles (x minify x platform); probe traces, thrown errors and the entry's export summary compared. non-trivial = native trace has >= 3 events"
		batch := 60
		for done := 0; done < count; done += batch {
			n := batch
			if count-done < n {
				n = count - done
			}
			cases := make([]c02Case, n)
			for i := range cases {
				gr := r.Fork()
				avoid := gr.Chance(1, 3)
				o := gen.GraphOpts{Modules: 1 + gr.Intn(7), Entries: 1, AllowCJS: gr.Chance(1, 2), AllowDyn: gr.Chance(1, 3), AllowCycle: gr.Chance(2, 3), AllowStar: gr.Bool(), SideEffectFreeDecls: gr.Bool(), AvoidInPlaceOrder: avoid}
				g := gen.GenGraph(gr, o)
				cases[i] = c02Case{g: g, variants: c02Variants(gr, avoid)}
				mergeStats(rep, "gen:", g.Stats)
			}
			runGraphDiff(rep, workdir, "c02", cases, true)
		}
	}
	replays["c02-graph"] = func(c json.RawMessage, workdir string, rep *Report) {
		var gr graphReplay
		json.Unmarshal(c, &gr)
		g := &gen.Graph{Files: gr.Files, Entries: gr.Entries}
		runGraphDiff(rep, workdir, "replay", []c02Case{{g: g, variants: []string{gr.OptName}}}, true)
	}
}
