package main

import (
	"encoding/json"
	"fmt"
	"os"
	"path"
	"path/filepath"
	"regexp"
	"sort"
	"strings"

	"github.com/evanw/esbuild/verifharness/gen"
)

// C10: code splitting. Static oracles on the emitted chunk graph + loading entry points in every
// order into one runtime, compared with the unsplit bundle of the entry that is loaded first.

var reStaticImport = regexp.MustCompile(`(?s)import\s*(?:\{([^}]*)\}\s*from\s*)?"(\.{1,2}/[^"]+)"`)
var reExportClause = regexp.MustCompile(`(?s)export\s*\{([^}]*)\}`)

type chunkInfo struct {
	imports map[string][]string // target path -> imported export names
	exports map[string]bool
}

func analyzeChunks(outs map[string]string) map[string]*chunkInfo {
	res := map[string]*chunkInfo{}
	for p, code := range outs {
		if !strings.HasSuffix(p, ".js") {
			continue
		}
		ci := &chunkInfo{imports: map[string][]string{}, exports: map[string]bool{}}
		// strip dynamic imports: `import("./x.js")` has a "(" right after import
		for _, m := range reStaticImport.FindAllStringSubmatchIndex(code, -1) {
			full := code[m[0]:m[1]]
			if strings.HasPrefix(strings.TrimSpace(full[len("import"):]), "(") {
				continue
			}
			target := path.Join(path.Dir(p), code[m[4]:m[5]])
			names := []string{}
			if m[2] >= 0 {
				for _, item := range strings.Split(code[m[2]:m[3]], ",") {
					item = strings.TrimSpace(item)
					if item == "" {
						continue
					}
					names = append(names, strings.Fields(item)[0])
				}
			}
			ci.imports[target] = append(ci.imports[target], names...)
		}
		for _, m := range reExportClause.FindAllStringSubmatch(code, -1) {
			for _, item := range strings.Split(m[1], ",") {
				item = strings.TrimSpace(item)
				if item == "" {
					continue
				}
				f := strings.Fields(item)
				ci.exports[f[len(f)-1]] = true
			}
		}
		if strings.Contains(code, "export default ") {
			ci.exports["default"] = true
		}
		res[p] = ci
	}
	return res
}

func chunkStaticProblems(outs map[string]string) [][2]string {
	var bad [][2]string
	info := analyzeChunks(outs)
	for p, ci := range info {
		for target, names := range ci.imports {
			ti, ok := info[target]
			if !ok {
				bad = append(bad, [2]string{"import-of-missing-chunk", fmt.Sprintf("%s imports %s which was not emitted", p, target)})
				continue
			}
			for _, n := range names {
				if !ti.exports[n] && !strings.Contains(outs[target], "export *") {
					bad = append(bad, [2]string{"import-of-missing-export", fmt.Sprintf("%s imports %q from %s which does not export it", p, n, target)})
				}
			}
		}
	}
	// static import cycles
	state := map[string]int{}
	var visit func(p string, stack []string) bool
	visit = func(p string, stack []string) bool {
		if state[p] == 1 {
			bad = append(bad, [2]string{"static-import-cycle", "chunks form a static import cycle: " + strings.Join(append(stack, p), " -> ")})
			return true
		}
		if state[p] == 2 {
			return false
		}
		state[p] = 1
		targets := []string{}
		for t := range info[p].imports {
			targets = append(targets, t)
		}
		sort.Strings(targets)
		for _, t := range targets {
			if _, ok := info[t]; ok && visit(t, append(stack, p)) {
				return true
			}
		}
		state[p] = 2
		return false
	}
	keys := []string{}
	for p := range info {
		keys = append(keys, p)
	}
	sort.Strings(keys)
	for _, p := range keys {
		if visit(p, nil) {
			break
		}
	}
	return bad
}

// perModule projects a trace onto module tags "mK:" / "dyn:" etc.
func perModule(trace []string) map[string][]string {
	out := map[string][]string{}
	for _, ev := range trace {
		tag := ev
		if i := strings.IndexByte(ev, ':'); i > 0 {
			tag = ev[:i]
		}
		out[tag] = append(out[tag], ev)
	}
	return out
}

type c10Replay struct {
	Files   map[string]string `json:"files"`
	Entries []string          `json:"entries"`
	OptName string            `json:"opt_name"`
	Order   []int             `json:"load_order"`
	Diff    string            `json:"diff"`
	Outputs map[string]string `json:"outputs,omitempty"`
}

func c10Case(rep *Report, dir string, class string, files map[string]string, entries []string, opt string, orders [][]int) {
	os.RemoveAll(dir)
	src := filepath.Join(dir, "src")
	writeTree(src, files)
	mkReplay := func(order []int, diff string, outs map[string]string) c10Replay {
		return c10Replay{Files: files, Entries: entries, OptName: opt, Order: order, Diff: diff, Outputs: outs}
	}
	// split build
	splitDir := filepath.Join(dir, "split")
	res, pan := buildSafe(buildOptsFromName(opt+",splitting", src, entries, splitDir))
	rep.Evaluations++
	if pan != "" {
		rep.violate(class+"/panic", pan, mkReplay(nil, pan, nil))
		return
	}
	if len(res.Errors) > 0 {
		rep.violate(class+"/build-error", msgsText(res.Errors), mkReplay(nil, msgsText(res.Errors), nil))
		return
	}
	outs := map[string]string{}
	for _, f := range res.OutputFiles {
		rel, _ := filepath.Rel(splitDir, f.Path)
		outs[filepath.ToSlash(rel)] = string(f.Contents)
	}
	for _, b := range chunkStaticProblems(outs) {
		rep.violate(class+"/"+b[0], b[1], mkReplay(nil, b[1], outs))
	}
	if strings.Contains(opt, "publicpath=") {
		return // absolute URLs cannot be loaded from disk; static oracles only
	}
	// every load order gets its own copy of the split output (fresh module instances)
	var gcases []graphCase
	for oi, order := range orders {
		od := filepath.Join(dir, fmt.Sprintf("order-%d", oi))
		os.MkdirAll(od, 0755)
		os.WriteFile(filepath.Join(od, "package.json"), []byte("{\"type\": \"module\"}"), 0644)
		for rel, c := range outs {
			os.MkdirAll(filepath.Dir(filepath.Join(od, rel)), 0755)
			os.WriteFile(filepath.Join(od, rel), []byte(c), 0644)
		}
		gc := graphCase{ID: oi}
		for _, e := range order {
			// the entry's output file: entry names template keeps [name]
			base := strings.TrimSuffix(entries[e], ".js")
			var file string
			for rel := range outs {
				if strings.HasSuffix(rel, ".js") && (rel == base+".js" || strings.HasPrefix(rel, base+"-") && !strings.Contains(rel, "/")) {
					file = rel
				}
			}
			gc.Runs = append(gc.Runs, graphRun{Name: fmt.Sprintf("split:%s", entries[e]), File: filepath.Join(od, file), Kind: "esm"})
		}
		// the unsplit bundle of the entry that is loaded first
		first := order[0]
		ud := filepath.Join(dir, fmt.Sprintf("unsplit-%d", oi))
		ures, upan := buildSafe(buildOptsFromName(opt, src, []string{entries[first]}, ud))
		if upan != "" || len(ures.Errors) > 0 {
			continue
		}
		os.MkdirAll(ud, 0755)
		os.WriteFile(filepath.Join(ud, "package.json"), []byte("{\"type\": \"module\"}"), 0644)
		var ufile string
		for _, f := range ures.OutputFiles {
			os.MkdirAll(filepath.Dir(f.Path), 0755)
			os.WriteFile(f.Path, f.Contents, 0644)
			if strings.HasSuffix(f.Path, ".js") && ufile == "" {
				ufile = f.Path
			}
		}
		gc.Runs = append(gc.Runs, graphRun{Name: "unsplit:" + entries[first], File: ufile, Kind: "esm"})
		gcases = append(gcases, gc)
	}
	results, err := runGraphNode(gcases, dir, 4)
	if err != nil {
		rep.stat("node-runner-error")
		fmt.Fprintln(os.Stderr, err)
	}
	for oi, order := range orders {
		rs := results[oi]
		if len(rs) != len(order)+1 {
			rep.Inconclusive++
			continue
		}
		unsplit := rs[len(order)]
		firstSplit := rs[0]
		rep.stat("orders-run")
		// (1) the first-loaded entry behaves as its unsplit bundle, up to the relative order of modules
		if firstSplit.Outcome != unsplit.Outcome {
			d := fmt.Sprintf("entry %s: split outcome %q, unsplit outcome %q", entries[order[0]], firstSplit.Outcome, unsplit.Outcome)
			rep.violate(class+"/outcome-differs", d, mkReplay(order, d, outs))
			continue
		}
		a, b := perModule(firstSplit.Trace), perModule(unsplit.Trace)
		for tag, evs := range b {
			if strings.Join(a[tag], "\n") != strings.Join(evs, "\n") {
				d := fmt.Sprintf("entry %s, module %s: split run %v, unsplit run %v", entries[order[0]], tag, a[tag], evs)
				rep.violate(class+"/module-events-differ", d, mkReplay(order, d, outs))
				break
			}
		}
		for tag := range a {
			if _, ok := b[tag]; !ok {
				d := fmt.Sprintf("entry %s: module %s runs in the split build only: %v", entries[order[0]], tag, a[tag])
				rep.violate(class+"/module-events-differ", d, mkReplay(order, d, outs))
				break
			}
		}
		if firstSplit.Exports != unsplit.Exports {
			d := fmt.Sprintf("entry %s exports: split %s unsplit %s", entries[order[0]], firstSplit.Exports, unsplit.Exports)
			rep.violate(class+"/exports-differ", d, mkReplay(order, d, outs))
		}
		// (2) over all entries loaded into this runtime every module body ran at most once
		starts := map[string]int{}
		for _, r := range rs[:len(order)] {
			for _, ev := range r.Trace {
				if strings.HasSuffix(ev, ":start\"") || strings.HasSuffix(ev, ":start") {
					starts[ev]++
				}
			}
			if strings.HasPrefix(r.Outcome, "throw:") && unsplit.Outcome == "ok" {
				d := fmt.Sprintf("loading %s after the others failed: %s", r.Name, r.Outcome)
				rep.violate(class+"/later-entry-fails", d, mkReplay(order, d, outs))
			}
		}
		for ev, n := range starts {
			if n > 1 {
				d := fmt.Sprintf("module body ran %d times in one runtime: %s", n, ev)
				rep.violate(class+"/module-ran-twice", d, mkReplay(order, d, outs))
			}
		}
	}
	rep.DistinctNontrivial++
	os.RemoveAll(dir)
}

func init() {
	searches["c10-split"] = func(r *gen.Rand, count int, workdir string, rep *Report) {
		rep.Rule = "ES module graphs with 2-3 entry points, overlapping reachability, re-exports and export * across chunk boundaries, exported lets mutated through exported functions, name collisions, one dynamic import; built with --splitting (x minify x name templates x public path). Static oracles on the chunks: every statically imported chunk exists and exports the imported names, no static import cycle. Dynamic oracle: every order of the entry points is loaded into one Node runtime; the first entry must match its unsplit bundle per module (events and values) and in its exports, no module body may run twice, later entries must load. non-trivial = a case whose orders ran"
		for i := 0; i < count; i++ {
			gr := r.Fork()
			ents := 2 + gr.Intn(2)
			o := gen.GraphOpts{Modules: ents + 1 + gr.Intn(5), Entries: ents, AllowDyn: gr.Bool(), AllowCycle: gr.Bool(), AllowStar: gr.Bool(), SideEffectFreeDecls: gr.Bool(), CollidingNames: gr.Bool(), NoTopLevelMutation: true}
			g := gen.GenGraph(gr, o)
			mergeStats(rep, "gen:", g.Stats)
			if gr.Chance(1, 3) {
				// an ES module that is loaded with require() (so it is wrapped and initialised lazily) and only
				// RE-EXPORTS bindings whose defining module lands in another chunk (a second entry imports it
				// directly): the wrapped module's export getters read bindings of the other chunk
				g.Files["rq_state.js"] = "export let rqCounter = 0;\nexport function rqBump() { rqCounter++; return rqCounter; }\np(\"rq_state:start\");\n"
				g.Files["rq_barrel.js"] = pickS(gr, "export { rqCounter, rqBump } from \"./rq_state.js\";\n", "export * from \"./rq_state.js\";\n", "export { rqCounter as rqCounter, rqBump } from \"./rq_state.js\";\np(\"rq_barrel:start\");\n")
				g.Files["m0.js"] += "const rqB = require(\"./rq_barrel.js\");\np(\"m0:rq\", rqB.rqCounter, rqB.rqBump(), rqB.rqCounter);\n"
				g.Files["m1.js"] += "import { rqCounter as rqSeen } from \"./rq_state.js\";\np(\"m1:rq\", typeof rqSeen);\n"
				rep.stat("gen:required-esm-barrel-reexports-other-chunk")
			}
			if gr.Chance(1, 3) {
				// a binding that reaches an entry's chunk ONLY as a cross-chunk import (re-exported with
				// `export *` from a module that lives in a shared chunk) next to a module of the same chunk
				// that declares the same top-level names
				g.Files["sh.js"] = "export let value = \"sh:value\";\nexport function describe() { return \"sh:\" + value; }\np(\"sh:start\");\n"
				g.Files["oth.js"] = "var value = \"oth:value\";\nfunction describe() { return \"oth:\" + value; }\np(\"oth:start\", value, describe());\n"
				g.Files["m0.js"] = "export * from \"./sh.js\";\nimport \"./oth.js\";\n" + g.Files["m0.js"]
				g.Files["m1.js"] = "import { value as shValue, describe as shDescribe } from \"./sh.js\";\np(\"m1:sh\", shValue, shDescribe());\n" + g.Files["m1.js"]
				rep.stat("gen:star-reexport-next-to-same-names")
			}
			opt := "fmt=esm" + pickS(gr, "", "", ",mi", ",ms,mi,mw", ",ms") + pickS(gr, "", "", ",entrynames=[name]-[hash],chunknames=c-[hash]", ",chunknames=[name]-[hash]")
			if gr.Chance(1, 6) {
				opt += ",publicpath=https://cdn.example/x/"
			}
			var orders [][]int
			switch ents {
			case 2:
				orders = [][]int{{0, 1}, {1, 0}}
			default:
				orders = [][]int{{0, 1, 2}, {2, 1, 0}, {1, 0, 2}}
			}
			c10Case(rep, filepath.Join(workdir, fmt.Sprintf("c10-%d", i%6)), "c10", g.Files, g.Entries, opt, orders)
		}
	}
	replays["c10-split"] = func(c json.RawMessage, workdir string, rep *Report) {
		var cr c10Replay
		json.Unmarshal(c, &cr)
		order := cr.Order
		if order == nil {
			for i := range cr.Entries {
				order = append(order, i)
			}
		}
		c10Case(rep, filepath.Join(workdir, "c10-replay"), "replay", cr.Files, cr.Entries, cr.OptName, [][]int{order})
	}
}
