package main

import (
	"encoding/json"
	"fmt"
	"os"
	"path/filepath"
	"strings"

	"github.com/evanw/esbuild/pkg/api"
	"github.com/evanw/esbuild/verifharness/gen"
)

// C12: the winning declaration computed from esbuild's CSS output equals the one computed from the
// input, for every element / property / environment of an enumerated universe.

type c12Replay struct {
	Source  string            `json:"source,omitempty"`
	Files   map[string]string `json:"files,omitempty"`
	OptName string            `json:"opt_name"`
	Output  string            `json:"output,omitempty"`
	Diff    string            `json:"diff,omitempty"`
}

var c12Elements = func() []cssElement {
	var out []cssElement
	for _, tag := range []string{"div", "p"} {
		for mask := 0; mask < 8; mask++ {
			cls := map[string]bool{}
			for i, c := range []string{"a", "b", "c"} {
				if mask>>uint(i)&1 == 1 {
					cls[c] = true
				}
			}
			out = append(out, cssElement{Tag: tag, Classes: cls})
		}
	}
	out = append(out, cssElement{Tag: "div", ID: "i", Classes: map[string]bool{"a": true}})
	return out
}()

func c12Selector(r *gen.Rand) string {
	simple := []string{".a", ".b", ".c", "div", "p", "#i", ".a.b", "div.a", "p.c", "*", ".b.c", "div.a.b"}
	switch r.Intn(10) {
	case 0:
		return ":is(" + simple[r.Intn(len(simple))] + ", " + simple[r.Intn(len(simple))] + ")"
	case 1:
		return simple[r.Intn(6)] + ":not(" + simple[r.Intn(3)] + ")"
	case 2:
		return ":where(" + simple[r.Intn(len(simple))] + ")" + simple[r.Intn(3)]
	case 3:
		return simple[r.Intn(len(simple))] + ", " + simple[r.Intn(len(simple))]
	default:
		return simple[r.Intn(len(simple))]
	}
}

func c12Color(r *gen.Rand) string {
	return pickS(r, "red", "#f00", "#ff0000", "rgb(255, 0, 0)", "rgba(255,0,0,1)", "blue", "#00f", "#0000ff80", "rgb(0 0 255 / 50%)", "green", "#008000", "tan", "#d2b48c", "black", "#000", "#000000ff", "white",
		"transparent", "#0000", "rgb(100% 0% 0%)", "#FF0000", "#abc", "#aabbcc", "#aabbccdd", "rgba(170, 187, 204, .867)", "yellow", "#ff0", "fuchsia", "#f0f", "currentColor", "inherit")
}

func c12Length(r *gen.Rand) string {
	return pickS(r, "0", "0px", "1px", "2px", "3px", "4px", "10px", "1.0px", "0.5px", ".5px", "1e1px", "+5px", "-5px", "1em", "50%", "0%", "calc(1px + 2px)", "calc(2 * 3px)", "calc(10px - 4px)", "calc(8px / 2)", "auto", "calc((1px + 1px) * 2)", "010px", "1.50em", "100.0%", "6vw", "5vh", "2vw", "1.5e10px", "00%", "000px")
}

func c12Decl(r *gen.Rand, allowLogical bool) string {
	imp := ""
	if r.Chance(1, 5) {
		imp = pickS(r, " !important", "!important", " ! important")
	}
	switch r.Intn(12) {
	case 0, 1:
		return pickS(r, "color", "background-color") + ": " + c12Color(r) + imp
	case 2:
		n := 1 + r.Intn(4)
		vals := []string{}
		for i := 0; i < n; i++ {
			vals = append(vals, c12Length(r))
		}
		return pickS(r, "margin", "padding", "inset") + ": " + strings.Join(vals, " ") + imp
	case 3, 4, 5:
		return pickS(r, "margin-top", "margin-right", "margin-bottom", "margin-left", "padding-top", "padding-right", "padding-bottom", "padding-left", "top", "right", "bottom", "left") + ": " + c12Length(r) + imp
	case 6:
		return pickS(r, "width", "height", "min-width") + ": " + c12Length(r) + imp
	case 7:
		return "display: " + pickS(r, "block", "none", "grid", "flex", "inline") + imp
	case 8:
		return pickS(r, "opacity", "z-index") + ": " + pickS(r, "0", "1", ".5", "0.50", "1.0", "10", "1e0") + imp
	case 9:
		return "color: " + pickS(r, "notacolor", "#12", "rgb(1,2)", "#ggg") + imp // invalid declaration: must be dropped on both sides
	default:
		return pickS(r, "margin-top", "margin-left", "top", "left") + ": " + c12Length(r) + imp
	}
}

func c12Rule(r *gen.Rand) string {
	n := 1 + r.Intn(5)
	decls := []string{}
	for i := 0; i < n; i++ {
		decls = append(decls, c12Decl(r, false))
	}
	return c12Selector(r) + " { " + strings.Join(decls, "; ") + pickS(r, "", ";") + " }"
}

func c12Sheet(r *gen.Rand, depth int) string {
	noLayers := depth < 0
	var sb strings.Builder
	n := 2 + r.Intn(6)
	if r.Chance(1, 4) && !noLayers {
		sb.WriteString("@layer " + pickS(r, "x, y", "y, x", "x", "z, x, y") + ";\n")
	}
	var prev string
	for i := 0; i < n; i++ {
		c := r.Intn(10)
		if noLayers && (c == 2 || c == 3) {
			c = 5
		}
		switch c {
		case 0:
			mq := pickS(r, "(min-width: 100px)", "screen", "(max-width: 50px)")
			if r.Chance(1, 3) {
				// the same condition nested in itself (unwrapped by the minifier) between two rules that are merge candidates
				first := c12Rule(r)
				third := c12Rule(r)
				if i := strings.IndexByte(first, '{'); i > 0 && r.Bool() {
					third = c12Selector(r) + " " + first[i:]
				}
				sb.WriteString("@media " + mq + " {\n" + first + "\n@media " + mq + " {\n" + c12Rule(r) + "\n}\n" + third + "\n}\n")
			} else {
				sb.WriteString("@media " + mq + " {\n" + c12Rule(r) + "\n" + c12Rule(r) + "\n}\n")
			}
		case 1:
			sb.WriteString("@supports " + pickS(r, "(display: grid)", "(inset: 0)") + " {\n" + c12Rule(r) + "\n}\n")
		case 2, 3:
			name := pickS(r, "x", "y", "z", "x.n", "")
			body := c12Rule(r)
			if r.Bool() {
				body += "\n" + c12Rule(r)
			}
			if r.Chance(1, 4) {
				body = "@layer n {\n" + body + "\n}"
			}
			blk := "@layer " + name + " {\n" + body + "\n}\n"
			sb.WriteString(blk)
			prev = blk
			if name != "" && r.Chance(1, 3) {
				// A, B, A again: the second copy of A is identical, but removing the FIRST one would move
				// layer A behind layer B in the layer order
				other := pickS(r, "x", "y", "z")
				if other != name {
					sb.WriteString("@layer " + other + " {\n" + c12Rule(r) + "\n}\n")
					if r.Bool() {
						sb.WriteString(blk)
					} else {
						sb.WriteString("@layer " + name + ";\n")
					}
				}
			}
		case 4:
			if prev != "" {
				sb.WriteString(prev) // exact duplicate of an earlier block / rule
				continue
			}
			fallthrough
		default:
			rule := c12Rule(r)
			sb.WriteString(rule + "\n")
			if r.Chance(1, 4) {
				prev = rule + "\n"
			}
			if r.Chance(1, 6) {
				// adjacent rule with the same body (merge candidate) or the same selector
				if i := strings.IndexByte(rule, '{'); i > 0 {
					sb.WriteString(c12Selector(r) + " " + rule[i:] + "\n")
				}
			}
		}
	}
	return sb.String()
}

func c12CheckOne(rep *Report, class string, src string, out string, replay c12Replay) {
	in, e1 := parseCSS(src)
	o, e2 := parseCSS(out)
	if e1 != "" || e2 != "" {
		rep.stat("evaluator-parse-problem")
		return
	}
	rep.Evaluations++
	if len(in.Rules) >= 3 {
		rep.DistinctNontrivial++
	}
	if d := compareCascade(in, o, c12Elements); d != "" {
		replay.Output = out
		replay.Diff = d
		rep.violate(class+"/cascade-winner-differs", d, replay)
	}
}

func init() {
	searches["c12-cascade"] = func(r *gen.Rand, count int, workdir string, rep *Report) {
		rep.Rule = "generated style sheets (compound selectors with :is/:where/:not, @media/@supports/@layer incl. nested, anonymous and duplicated layer blocks, !important, box shorthand/longhand interleavings, every colour notation and numeric form, calc(), invalid declarations, duplicate and mergeable rules) transformed with minify / targets (lowering of inset, hex-alpha, rgb syntax) and bundled through @import graphs with layers and conditions; an independent evaluator (harness/cmd/hapi/cascade.go) computes the winning declaration for 17 elements x all truth assignments of the conditions x every longhand property on input and output. non-trivial = sheet has >= 3 rules"
		for i := 0; i < count; i++ {
			gr := r.Fork()
			if gr.Chance(3, 4) {
				src := c12Sheet(gr, 1)
				opt := pickS(gr, "default", "ms", "ms,mw", "mw", "engine=chrome:80", "engine=chrome:80,ms", "engine=safari:13,ms,mw", "engine=firefox:60", "engine=chrome:50,ms")
				o := optsFromName(opt)
				o.Loader = api.LoaderCSS
				res, pan := transformSafe(src, o)
				if pan != "" {
					rep.violate("c12/panic", pan, c12Replay{Source: src, OptName: opt})
					continue
				}
				if len(res.Errors) > 0 {
					rep.stat("transform-error")
					continue
				}
				rep.stat("opt:" + opt)
				c12CheckOne(rep, "c12", src, string(res.Code), c12Replay{Source: src, OptName: opt})
				if len(rep.Samples) < 1 {
					rep.Samples = append(rep.Samples, map[string]string{"source": src, "opt": opt, "output": string(res.Code)})
				}
				continue
			}
			// bundling an @import graph: equivalent to inlining every import where it appears
			files := map[string]string{}
			nf := 2 + gr.Intn(3)
			dup := gr.Chance(1, 2)
			for k := 0; k < nf; k++ {
				d := 0
				if dup {
					d = -1 // files that are imported several times contain no cascade layers (known finding)
				}
				files[fmt.Sprintf("f%d.css", k)] = c12Sheet(gr, d)
			}
			// twin files: two different files with the same text, so that the cross-file duplicate-rule
			// removal meets identical rules (and identical condition wrappers) coming from different imports
			twin := !dup && gr.Chance(1, 3)
			if twin {
				files[fmt.Sprintf("f%d.css", nf-1)] = files["f0.css"]
			}
			entry := ""
			inlined := ""
			wrap := func(body, cond string) string {
				switch {
				case cond == "":
					return body
				case strings.HasPrefix(cond, "layer("):
					return "@layer " + cond[6:len(cond)-1] + " {\n" + body + "\n}\n"
				case cond == "layer":
					return "@layer {\n" + body + "\n}\n"
				default:
					return "@media " + cond + " {\n" + body + "\n}\n"
				}
			}
			ni := 1 + gr.Intn(nf)
			if dup {
				ni = 2 + gr.Intn(3)
			}
			if twin {
				ni = nf
				rep.stat("bundle-twin-files")
			}
			for k := 0; k < ni; k++ {
				f := k % nf
				cond := pickS(gr, "", "", "layer(x)", "layer(y)", "screen", "(min-width: 100px)")
				if twin && (k == 0 || k == nf-1) && gr.Chance(2, 3) {
					cond = "layer(x)"
				}
				if dup {
					// the same file imported several times: only without layer conditions (an earlier copy in a
					// deeper layer that is dropped changes !important winners: known finding c12-import-dedupe-important-layers)
					f = gr.Intn(nf)
					cond = pickS(gr, "", "", "screen", "(min-width: 100px)")
				}
				entry += fmt.Sprintf("@import \"./f%d.css\" %s;\n", f, cond)
				inlined += wrap(files[fmt.Sprintf("f%d.css", f)], cond)
			}
			own := c12Sheet(gr, 0)
			// @layer statements may precede @import, other rules may not
			entry += own
			inlined += own
			files["entry.css"] = entry
			dir := filepath.Join(workdir, fmt.Sprintf("c12-%d", i%4))
			os.RemoveAll(dir)
			writeTree(dir, files)
			opt := pickS(gr, "default", "ms", "ms,mw")
			bo := buildOptsFromName(opt, dir, []string{"entry.css"}, "out")
			res, pan := buildSafe(bo)
			if pan != "" {
				rep.violate("c12/panic", pan, c12Replay{Files: files, OptName: opt})
				continue
			}
			if len(res.Errors) > 0 || len(res.OutputFiles) == 0 {
				rep.stat("build-error")
				continue
			}
			rep.stat("bundle")
			c12CheckOne(rep, "c12/bundle", inlined, string(res.OutputFiles[0].Contents), c12Replay{Files: files, OptName: opt, Source: inlined})
		}
	}
	replays["c12-cascade"] = func(c json.RawMessage, workdir string, rep *Report) {
		var cr c12Replay
		json.Unmarshal(c, &cr)
		if cr.Files != nil {
			dir := filepath.Join(workdir, "c12-replay")
			os.RemoveAll(dir)
			writeTree(dir, cr.Files)
			res, _ := buildSafe(buildOptsFromName(cr.OptName, dir, []string{"entry.css"}, "out"))
			if len(res.OutputFiles) > 0 {
				c12CheckOne(rep, "replay", cr.Source, string(res.OutputFiles[0].Contents), cr)
			}
			return
		}
		o := optsFromName(cr.OptName)
		o.Loader = api.LoaderCSS
		res, _ := transformSafe(cr.Source, o)
		c12CheckOne(rep, "replay", cr.Source, string(res.Code), cr)
	}
}
