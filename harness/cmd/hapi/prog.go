package main

import (
	"bufio"
	"encoding/json"
	"fmt"
	"os"
	"os/exec"
	"path/filepath"
	"strings"
	"sync"

	"github.com/evanw/esbuild/pkg/api"
	"github.com/evanw/esbuild/verifharness/gen"
)

// ---- node runner plumbing -------------------------------------------------------------------

type nodeVariant struct {
	Name          string `json:"name"`
	Code          string `json:"code"`
	Kind          string `json:"kind"`
	ReportExports bool   `json:"reportExports,omitempty"`
}
type nodeCase struct {
	ID       int           `json:"id"`
	Variants []nodeVariant `json:"variants"`
}
type nodeResult struct {
	Name    string   `json:"name"`
	Trace   []string `json:"trace"`
	Outcome string   `json:"outcome"`
}
type nodeCaseResult struct {
	ID      int          `json:"id"`
	Results []nodeResult `json:"results"`
}

func nodeDir() string {
	if d := os.Getenv("VERIF_NODE_DIR"); d != "" {
		return d
	}
	return "/verif/node"
}

// runNode executes the cases in `par` parallel node processes and returns results by case id
func runNode(cases []nodeCase, workdir string, par int) (map[int][]nodeResult, error) {
	if par < 1 {
		par = 1
	}
	if par > len(cases) {
		par = len(cases)
	}
	out := map[int][]nodeResult{}
	os.MkdirAll(workdir, 0755)
	if len(cases) == 0 {
		return out, nil
	}
	var mu sync.Mutex
	var wg sync.WaitGroup
	var firstErr error
	chunk := (len(cases) + par - 1) / par
	for w := 0; w < par; w++ {
		lo, hi := w*chunk, (w+1)*chunk
		if lo >= len(cases) {
			break
		}
		if hi > len(cases) {
			hi = len(cases)
		}
		wg.Add(1)
		go func(w int, part []nodeCase) {
			defer wg.Done()
			in := filepath.Join(workdir, fmt.Sprintf("cases-%d.json", w))
			res := filepath.Join(workdir, fmt.Sprintf("results-%d.jsonl", w))
			js, _ := json.Marshal(part)
			os.WriteFile(in, js, 0644)
			cmd := exec.Command("node", "--stack-size=2000", "--experimental-vm-modules", "--no-warnings", filepath.Join(nodeDir(), "runner.js"), in, res)
			b, err := cmd.CombinedOutput()
			f, ferr := os.Open(res)
			if ferr == nil {
				sc := bufio.NewScanner(f)
				sc.Buffer(make([]byte, 1<<20), 1<<28)
				for sc.Scan() {
					var r nodeCaseResult
					if json.Unmarshal(sc.Bytes(), &r) == nil {
						mu.Lock()
						out[r.ID] = r.Results
						mu.Unlock()
					}
				}
				f.Close()
			}
			if err != nil {
				mu.Lock()
				if firstErr == nil {
					firstErr = fmt.Errorf("node runner: %v: %s", err, string(b))
				}
				mu.Unlock()
			}
			os.Remove(in)
			os.Remove(res)
		}(w, cases[lo:hi])
	}
	wg.Wait()
	return out, firstErr
}

func sameResult(a, b nodeResult) (bool, string) {
	if a.Outcome != b.Outcome {
		return false, fmt.Sprintf("outcome %q vs %q", a.Outcome, b.Outcome)
	}
	if len(a.Trace) != len(b.Trace) {
		n := len(a.Trace)
		if len(b.Trace) < n {
			n = len(b.Trace)
		}
		for i := 0; i < n; i++ {
			if a.Trace[i] != b.Trace[i] {
				return false, fmt.Sprintf("trace[%d] %q vs %q", i, a.Trace[i], b.Trace[i])
			}
		}
		return false, fmt.Sprintf("trace length %d vs %d", len(a.Trace), len(b.Trace))
	}
	for i := range a.Trace {
		if a.Trace[i] != b.Trace[i] {
			return false, fmt.Sprintf("trace[%d] %q vs %q", i, a.Trace[i], b.Trace[i])
		}
	}
	return true, ""
}

// ---- transform variants -----------------------------------------------------------------------

type optSet struct {
	Name string
	Opts api.TransformOptions
	Kind string // how the output must be executed: "script" or "cjs"
}

type progReplay struct {
	Source  string            `json:"source"`
	OptName string            `json:"opt_name"`
	Loader  string            `json:"loader"`
	Flags   map[string]string `json:"flags"`
	Output  string            `json:"output,omitempty"`
	Diff    string            `json:"diff,omitempty"`

	MinimisedFrom int `json:"minimised_from,omitempty"`
}

func transformSafe(src string, o api.TransformOptions) (res api.TransformResult, panicked string) {
	defer func() {
		if r := recover(); r != nil {
			panicked = fmt.Sprint(r)
		}
	}()
	res = api.Transform(src, o)
	return
}

func msgsText(ms []api.Message) string {
	parts := []string{}
	for _, m := range ms {
		parts = append(parts, m.Text)
	}
	return strings.Join(parts, " | ")
}

type progCase struct {
	Source string
	Sets   []optSet
}

type progOutcome struct {
	Case     progCase
	Outputs  []string // per set ("" when transform failed)
	Errors   []string
	Original nodeResult
	Results  []nodeResult
}

// runProgDiff transforms every case under every option set, executes input and outputs in Node, and
// reports differences. `class` prefixes the violation fingerprint. inputKind: "script".
func runProgDiff(rep *Report, workdir string, class string, cases []progCase, onReject func(c progCase, set optSet, errs string)) []progOutcome {
	ncases := make([]nodeCase, 0, len(cases))
	outs := make([]progOutcome, len(cases))
	var wg sync.WaitGroup
	sem := make(chan struct{}, 16)
	for i := range cases {
		wg.Add(1)
		sem <- struct{}{}
		go func(i int) {
			defer wg.Done()
			defer func() { <-sem }()
			c := cases[i]
			po := progOutcome{Case: c, Outputs: make([]string, len(c.Sets)), Errors: make([]string, len(c.Sets))}
			for j, s := range c.Sets {
				res, pan := transformSafe(c.Source, s.Opts)
				if pan != "" {
					po.Errors[j] = "PANIC: " + pan
					continue
				}
				if len(res.Errors) > 0 {
					po.Errors[j] = msgsText(res.Errors)
					continue
				}
				po.Outputs[j] = string(res.Code)
			}
			outs[i] = po
		}(i)
	}
	wg.Wait()
	for i, po := range outs {
		nc := nodeCase{ID: i, Variants: []nodeVariant{{Name: "input", Code: po.Case.Source, Kind: "cjs"}}}
		for j, s := range po.Case.Sets {
			if po.Errors[j] != "" {
				if strings.HasPrefix(po.Errors[j], "PANIC") {
					rep.violate(class+"/panic", "esbuild panicked: "+po.Errors[j], progReplay{Source: po.Case.Source, OptName: s.Name})
				} else if onReject != nil {
					onReject(po.Case, s, po.Errors[j])
				}
				rep.stat("transform-error")
				continue
			}
			nc.Variants = append(nc.Variants, nodeVariant{Name: s.Name, Code: po.Outputs[j], Kind: s.Kind})
		}
		ncases = append(ncases, nc)
	}
	results, err := runNode(ncases, workdir, 12)
	if err != nil {
		rep.stat("node-runner-error")
		fmt.Fprintln(os.Stderr, err)
	}
	for i := range outs {
		rs := results[i]
		if len(rs) == 0 {
			rep.Inconclusive++
			continue
		}
		orig := rs[0]
		outs[i].Original = orig
		outs[i].Results = rs[1:]
		rep.Evaluations++
		if strings.HasPrefix(orig.Outcome, "syntax:") {
			rep.stat("input-syntax-error-in-v8")
			rep.stat("v8-syntax:" + orig.Outcome)
			if len(rep.Samples) < 6 {
				rep.Samples = append(rep.Samples, map[string]string{"v8_syntax_error": orig.Outcome, "source": outs[i].Case.Source})
			}
			continue
		}
		if orig.Outcome == "timeout" {
			rep.Inconclusive++
			continue
		}
		if len(orig.Trace) >= 2 {
			rep.DistinctNontrivial++
		}
		switch {
		case orig.Outcome == "ok":
			rep.stat("input-outcome-ok")
		default:
			rep.stat("input-outcome-throw")
		}
		for _, r := range rs[1:] {
			if r.Outcome == "timeout" {
				rep.Inconclusive++
				continue
			}
			rep.stat("compared")
			if strings.HasPrefix(r.Outcome, "syntax:") {
				var out string
				for j, s := range outs[i].Case.Sets {
					if s.Name == r.Name {
						out = outs[i].Outputs[j]
					}
				}
				rep.violate(class+"/invalid-output/"+r.Name, "output is not valid JavaScript for V8: "+r.Outcome, progReplay{Source: outs[i].Case.Source, OptName: r.Name, Output: out, Diff: r.Outcome})
				continue
			}
			if ok, why := sameResult(orig, r); !ok {
				var out string
				for j, s := range outs[i].Case.Sets {
					if s.Name == r.Name {
						out = outs[i].Outputs[j]
					}
				}
				rep.violate(class+"/trace-diff/"+r.Name, "input and output behave differently: "+why, progReplay{Source: outs[i].Case.Source, OptName: r.Name, Output: out, Diff: why})
			}
		}
	}
	return outs
}

func mergeStats(rep *Report, prefix string, m map[string]int) {
	for k, v := range m {
		rep.Distribution[prefix+k] += v
	}
}

func newGen(r *gen.Rand, f gen.Features, budget int) *gen.JSGen { return gen.NewJSGen(r, f, budget) }
