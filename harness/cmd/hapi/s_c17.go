package main

import (
	"crypto/sha256"
	"encoding/json"
	"fmt"
	"os"
	"path/filepath"
	"sort"
	"strings"

	"github.com/evanw/esbuild/pkg/api"
	"github.com/evanw/esbuild/verifharness/gen"
)

// c17-fs: project trees and option sets in which output locations coincide with inputs, built on a real
// directory (one-shot builds and rebuild histories of a context). The directory is snapshotted before and after
// every build and checked against invariants that do not depend on esbuild's own bookkeeping:
//   I1 no file that existed before the build and was an input is modified or deleted unless AllowOverwrite;
//      identity is the REAL path (symlinks resolved), not the path string;
//   I2 a build with errors, and a build with Write:false, creates and modifies nothing;
//   I3 every created or modified file is one of the reported outputs;
//   I4 after a successful writing build every reported output exists with the reported contents;
//   I5 a deleted file was an output of an earlier build of the same context and is not an output now;
//   I6 outputs are inside the output directory.

type c17Step struct {
	Edit  string `json:"edit"`
	Error bool   `json:"error"`
}

type c17Replay struct {
	Files    map[string]string `json:"files"`
	Symlinks map[string]string `json:"symlinks,omitempty"`
	Entries  []string          `json:"entries"`
	Outdir   string            `json:"outdir"`
	Outbase  string            `json:"outbase,omitempty"`
	OutExt   string            `json:"out_ext,omitempty"`
	Assets   string            `json:"asset_names,omitempty"`
	Loader   string            `json:"txt_loader,omitempty"`
	Allow    bool              `json:"allow_overwrite"`
	Write    bool              `json:"write"`
	Bundle   bool              `json:"bundle"`
	Context  bool              `json:"context"`
	Steps    []string          `json:"steps"`
	OnEndErr bool              `json:"on_end_error"`
	Preserve bool              `json:"preserve_symlinks"`
	Diff     string            `json:"diff,omitempty"`
}

type c17Snap struct {
	hash  [32]byte
	mtime int64
	real  string
}

func c17Tree(root string) map[string]c17Snap {
	out := map[string]c17Snap{}
	filepath.Walk(root, func(p string, info os.FileInfo, err error) error {
		if err != nil {
			return nil
		}
		if info.Mode()&os.ModeSymlink != 0 || info.IsDir() {
			return nil
		}
		b, _ := os.ReadFile(p)
		rp, e := filepath.EvalSymlinks(p)
		if e != nil {
			rp = p
		}
		out[p] = c17Snap{hash: sha256.Sum256(b), mtime: info.ModTime().UnixNano(), real: rp}
		return nil
	})
	return out
}

func realOf(p string) string {
	// resolve the deepest existing ancestor so that a file about to be created gets its real location
	dir, base := filepath.Dir(p), filepath.Base(p)
	if r, err := filepath.EvalSymlinks(p); err == nil {
		return r
	}
	if r, err := filepath.EvalSymlinks(dir); err == nil {
		return filepath.Join(r, base)
	}
	if dir == p {
		return p
	}
	return filepath.Join(realOf(dir), base)
}

func c17Case(rep *Report, workdir string, class string, c c17Replay) {
	dir := filepath.Join(workdir, "c17")
	os.RemoveAll(dir)
	defer os.RemoveAll(dir)
	writeTree(dir, c.Files)
	for link, target := range c.Symlinks {
		os.MkdirAll(filepath.Dir(filepath.Join(dir, link)), 0755)
		os.Symlink(target, filepath.Join(dir, link))
	}
	rep.Evaluations++
	opts := api.BuildOptions{AbsWorkingDir: dir, EntryPoints: c.Entries, Outdir: c.Outdir, Outbase: c.Outbase, Bundle: c.Bundle, Write: c.Write,
		AllowOverwrite: c.Allow, LogLevel: api.LogLevelSilent, Format: api.FormatESModule}
	if c.Preserve {
		opts.PreserveSymlinks = true
	}
	if c.OutExt != "" {
		opts.OutExtension = map[string]string{".js": c.OutExt}
	}
	if c.Assets != "" {
		opts.AssetNames = c.Assets
	}
	switch c.Loader {
	case "file":
		opts.Loader = map[string]api.Loader{".txt": api.LoaderFile}
	case "copy":
		opts.Loader = map[string]api.Loader{".txt": api.LoaderCopy}
	}
	if c.OnEndErr {
		opts.Plugins = []api.Plugin{{Name: "onend", Setup: func(b api.PluginBuild) {
			b.OnEnd(func(r *api.BuildResult) (api.OnEndResult, error) {
				return api.OnEndResult{Errors: []api.Message{{Text: "on-end failure"}}}, nil
			})
		}}}
	}
	var ctx api.BuildContext
	if c.Context {
		cx, err := api.Context(opts)
		if err != nil {
			rep.stat("context-error")
			return
		}
		ctx = cx
		defer ctx.Dispose()
	}
	absOutdir := c.Outdir
	if !filepath.IsAbs(absOutdir) {
		absOutdir = filepath.Join(dir, absOutdir)
	}
	realOutdir := realOf(absOutdir)
	ownOutputs := map[string]bool{} // real paths of outputs of earlier builds of this context
	steps := c.Steps
	if len(steps) == 0 {
		steps = []string{"build"}
	}
	nontrivial := false
	for si, st := range steps {
		// apply the edit
		switch {
		case st == "break":
			p := filepath.Join(dir, c.Entries[0])
			b, _ := os.ReadFile(p)
			os.WriteFile(p, append(b, []byte("\nlet let = ;\n")...), 0644)
		case st == "fix":
			p := filepath.Join(dir, c.Entries[0])
			b, _ := os.ReadFile(p)
			os.WriteFile(p, []byte(strings.ReplaceAll(string(b), "\nlet let = ;\n", "")), 0644)
		case st == "edit":
			p := filepath.Join(dir, c.Entries[len(c.Entries)-1])
			b, _ := os.ReadFile(p)
			os.WriteFile(p, append(b, []byte(fmt.Sprintf("\nconsole.log(%d);\n", si))...), 0644)
		case st == "drop-asset":
			p := filepath.Join(dir, c.Entries[0])
			b, _ := os.ReadFile(p)
			os.WriteFile(p, []byte(strings.ReplaceAll(string(b), "import asset from \"./data.txt\";", "const asset = 0;")), 0644)
		}
		before := c17Tree(dir)
		var res api.BuildResult
		if ctx != nil {
			res = ctx.Rebuild()
		} else {
			res, _ = buildSafe(opts)
		}
		after := c17Tree(dir)
		hasErr := len(res.Errors) > 0
		violate := func(cls, what string) {
			cc := c
			cc.Steps = steps[:si+1]
			cc.Diff = what
			rep.violate(class+"/"+cls, fmt.Sprintf("step %d (%s): %s", si, st, what), cc)
		}
		reported := map[string][]byte{}
		for _, f := range res.OutputFiles {
			reported[realOf(f.Path)] = f.Contents
			if !strings.HasPrefix(realOf(f.Path)+string(filepath.Separator), realOutdir+string(filepath.Separator)) && !strings.Contains(c.Assets, "..") {
				violate("output-outside-outdir", fmt.Sprintf("reported output %s is not inside the output directory %s", f.Path, absOutdir))
			}
		}
		inputsReal := map[string]bool{}
		for p, s := range before {
			rel, _ := filepath.Rel(dir, p)
			if _, isSrc := c.Files[filepath.ToSlash(rel)]; isSrc && !ownOutputs[s.real] {
				inputsReal[s.real] = true
			}
		}
		changed := []string{}
		for p, a := range after {
			b, ok := before[p]
			if !ok || b.hash != a.hash || b.mtime != a.mtime {
				changed = append(changed, p)
			}
		}
		deleted := []string{}
		for p := range before {
			if _, ok := after[p]; !ok {
				deleted = append(deleted, p)
			}
		}
		sort.Strings(changed)
		sort.Strings(deleted)
		if len(changed)+len(deleted) > 0 {
			nontrivial = true
		}
		for _, p := range changed {
			rp := after[p].real
			rel, _ := filepath.Rel(dir, p)
			if hasErr || !c.Write {
				cls := "failed-or-dry-build-wrote"
				if c.OnEndErr && c.Write && len(res.Errors) == 1 && res.Errors[0].Text == "on-end failure" {
					// on-end callbacks run after the files were written, by design: known finding
					// c17-on-end-error-after-files-written
					cls += ":on-end-plugin"
				}
				violate(cls, fmt.Sprintf("errors=%v write=%v but %s was created or modified", hasErr, c.Write, rel))
			}
			if _, ok := reported[rp]; !ok && !(hasErr && c.OnEndErr) {
				violate("wrote-unreported-file", fmt.Sprintf("%s was created or modified but is not among the reported outputs", rel))
			}
			if inputsReal[rp] && !c.Allow {
				violate("input-overwritten", fmt.Sprintf("input file %s (real path %s) was overwritten without AllowOverwrite", rel, rp))
			}
		}
		for _, p := range deleted {
			rp := before[p].real
			rel, _ := filepath.Rel(dir, p)
			if !ownOutputs[rp] {
				violate("deleted-foreign-file", fmt.Sprintf("%s was deleted but no earlier build of this context reported it as output", rel))
			}
			if _, ok := reported[rp]; ok {
				violate("deleted-current-output", fmt.Sprintf("%s is a reported output of this build but was deleted", rel))
			}
			if inputsReal[rp] && !c.Allow {
				violate("input-deleted", fmt.Sprintf("input file %s was deleted", rel))
			}
		}
		if !hasErr && c.Write {
			for rp, content := range reported {
				b, err := os.ReadFile(rp)
				if err != nil {
					violate("reported-output-missing", fmt.Sprintf("reported output %s does not exist after the build", rp))
				} else if string(b) != string(content) {
					violate("reported-output-differs", fmt.Sprintf("reported output %s has other contents on disk", rp))
				}
			}
		}
		if hasErr {
			rep.stat("step:error")
		} else {
			rep.stat("step:ok")
		}
		if c.Write && (!hasErr || c.OnEndErr) {
			// (an on-end plugin fails after the files were written: they are outputs of this context)
			for rp := range reported {
				ownOutputs[rp] = true
			}
		}
	}
	if nontrivial {
		rep.DistinctNontrivial++
	}
}

func init() {
	searches["c17-fs"] = func(r *gen.Rand, count int, workdir string, rep *Report) {
		rep.Rule = "projects built on a real directory with output locations that coincide with inputs: outdir equal to / inside / a symlink to the source directory, out-extension equal to the input extension, hash-less entry and asset name templates, file and copy loader assets named like their sources, outbase mapping an entry onto itself, case variants; x write on/off x allow-overwrite x bundle x builds failing in scan or in an on-end plugin x rebuild histories (break, fix, edit, drop an asset). After every build the tree is diffed against the snapshot taken before and checked against invariants I1-I6 (real-path identity). non-trivial = some file was created, modified or deleted"
		for i := 0; i < count; i++ {
			gr := r.Fork()
			c := c17Replay{Files: map[string]string{}, Symlinks: map[string]string{}, Write: gr.Chance(5, 6), Allow: gr.Chance(1, 4), Bundle: gr.Chance(3, 4), Context: gr.Bool()}
			withAsset := gr.Bool()
			c.Files["src/a.js"] = "import { u } from \"./util.js\";\nconsole.log(\"a\", u);\n"
			if withAsset {
				c.Files["src/a.js"] = "import asset from \"./data.txt\";\nconsole.log(asset);\n" + c.Files["src/a.js"]
				c.Files["src/data.txt"] = "asset\n"
				c.Loader = pickS(gr, "file", "copy")
				c.Assets = pickS(gr, "", "[name]", "[dir]/[name]", "[name]-[hash]")
			}
			c.Files["src/util.js"] = "export const u = 1;\n"
			c.Files["src/b.js"] = "import { u } from \"./util.js\";\nconsole.log(\"b\", u);\n"
			c.Files["other/keep.js"] = "console.log(\"untouched\");\n"
			c.Entries = []string{"src/a.js"}
			if gr.Bool() {
				c.Entries = append(c.Entries, "src/b.js")
			}
			switch gr.Intn(11) {
			case 0, 1:
				c.Outdir = "out"
			case 2:
				c.Outdir = "src" // lands on the entry points
				rep.stat("place:outdir=srcdir")
			case 3:
				c.Outdir = "."
				c.Outbase = "."
				rep.stat("place:outbase-maps-entry-onto-itself")
			case 4:
				c.Symlinks["link"] = "src" // outdir is a symlink to the source directory
				c.Outdir = "link"
				rep.stat("place:outdir-symlink-to-srcdir")
			case 5:
				c.Symlinks["srclink"] = "src" // entries reached through a symlink, outdir is the real directory
				for k := range c.Entries {
					c.Entries[k] = strings.Replace(c.Entries[k], "src/", "srclink/", 1)
				}
				c.Outdir = "src"
				c.Preserve = gr.Bool()
				rep.stat("place:entries-through-symlink")
			case 6:
				c.Outdir = "src/nested"
			case 7:
				c.Outdir = "SRC" // case variant (distinct directory on a case-sensitive file system)
			case 8:
				c.Outdir = "out"
				c.OutExt = ".mjs"
			default:
				// entry points OUTSIDE an explicit outbase (one and two levels up): their outputs must still
				// land inside the output directory; files that happen to sit where `..` would lead are bystanders
				c.Files["lib/side.js"] = "console.log(\"side\");\n"
				c.Files["far.js"] = "console.log(\"far\");\n"
				c.Files["build/lib/side.js"] = "// bystander one level above the output directory\n"
				c.Files["build/far.js"] = "// bystander\n"
				c.Files["far2.js"] = "// bystander at the project root\n"
				c.Entries = append(c.Entries, "lib/side.js")
				if gr.Bool() {
					c.Entries = append(c.Entries, "far.js")
				}
				c.Outbase = pickS(gr, "src", "src", "src/deep")
				if c.Outbase == "src/deep" {
					c.Files["src/deep/d.js"] = "console.log(\"d\");\n"
					c.Entries = append(c.Entries, "src/deep/d.js")
				}
				c.Outdir = "build/out"
				rep.stat("place:entries-outside-outbase")
			}
			if !c.Bundle {
				c.Loader, c.Assets = "", ""
				c.Files["src/a.js"] = "console.log(\"a\");\n"
				c.Files["src/b.js"] = "console.log(\"b\");\n"
			}
			c.OnEndErr = gr.Chance(1, 8)
			if c.Context {
				n := 2 + gr.Intn(4)
				for k := 0; k < n; k++ {
					c.Steps = append(c.Steps, pickS(gr, "build", "edit", "edit", "break", "fix", "drop-asset"))
				}
			} else {
				c.Steps = []string{pickS(gr, "build", "build", "break")}
			}
			c17Case(rep, workdir, "c17", c)
		}
	}
	replays["c17-fs"] = func(cj json.RawMessage, workdir string, rep *Report) {
		var c c17Replay
		json.Unmarshal(cj, &c)
		c17Case(rep, workdir, "replay", c)
	}
}
