package main

import (
	"bufio"
	"encoding/json"
	"fmt"
	"os"
	"os/exec"
	"path/filepath"
	"strings"
	"sync"

	"github.com/evanw/esbuild/pkg/api"
)

type graphRun struct {
	Name       string `json:"name"`
	File       string `json:"file"`
	Kind       string `json:"kind"`
	GlobalName string `json:"globalName,omitempty"`
}
type graphCase struct {
	ID   int        `json:"id"`
	Runs []graphRun `json:"runs"`
}
type graphResult struct {
	Name    string   `json:"name"`
	Trace   []string `json:"trace"`
	Outcome string   `json:"outcome"`
	Exports string   `json:"exports"`
}

func writeTree(dir string, files map[string]string) error {
	for rel, content := range files {
		p := filepath.Join(dir, rel)
		if err := os.MkdirAll(filepath.Dir(p), 0755); err != nil {
			return err
		}
		if err := os.WriteFile(p, []byte(content), 0644); err != nil {
			return err
		}
	}
	return nil
}

func runGraphNode(cases []graphCase, workdir string, par int) (map[int][]graphResult, error) {
	out := map[int][]graphResult{}
	if len(cases) == 0 {
		return out, nil
	}
	if par > len(cases) {
		par = len(cases)
	}
	var mu sync.Mutex
	var wg sync.WaitGroup
	var firstErr error
	chunk := (len(cases) + par - 1) / par
	for w := 0; w < par; w++ {
		lo, hi := w*chunk, (w+1)*chunk
		if lo >= len(cases) {
			break
		}
		if hi > len(cases) {
			hi = len(cases)
		}
		wg.Add(1)
		go func(w int, part []graphCase) {
			defer wg.Done()
			in := filepath.Join(workdir, fmt.Sprintf("gcases-%d.json", w))
			res := filepath.Join(workdir, fmt.Sprintf("gresults-%d.jsonl", w))
			js, _ := json.Marshal(part)
			os.WriteFile(in, js, 0644)
			cmd := exec.Command("node", filepath.Join(nodeDir(), "graph-runner.js"), in, res)
			b, err := cmd.CombinedOutput()
			if f, ferr := os.Open(res); ferr == nil {
				sc := bufio.NewScanner(f)
				sc.Buffer(make([]byte, 1<<20), 1<<28)
				for sc.Scan() {
					var r struct {
						ID      int           `json:"id"`
						Results []graphResult `json:"results"`
					}
					if json.Unmarshal(sc.Bytes(), &r) == nil {
						mu.Lock()
						out[r.ID] = r.Results
						mu.Unlock()
					}
				}
				f.Close()
			}
			if err != nil {
				mu.Lock()
				if firstErr == nil {
					firstErr = fmt.Errorf("graph runner: %v: %s", err, string(b))
				}
				mu.Unlock()
			}
			os.Remove(in)
			os.Remove(res)
		}(w, cases[lo:hi])
	}
	wg.Wait()
	return out, firstErr
}

// buildOptsFromName: comma separated flags -> BuildOptions (bundle always on unless "nobundle")
func buildOptsFromName(name string, absDir string, entries []string, outdir string) api.BuildOptions {
	t := optsFromName(name)
	o := api.BuildOptions{
		LogLevel: api.LogLevelSilent, AbsWorkingDir: absDir, EntryPoints: entries, Outdir: outdir, Bundle: true, Write: false,
		Charset: t.Charset, MinifyWhitespace: t.MinifyWhitespace, MinifySyntax: t.MinifySyntax, MinifyIdentifiers: t.MinifyIdentifiers,
		KeepNames: t.KeepNames, LineLimit: t.LineLimit, Format: t.Format, Target: t.Target, Engines: t.Engines, Supported: t.Supported, Platform: t.Platform,
	}
	for _, f := range strings.Split(name, ",") {
		switch {
		case f == "nobundle":
			o.Bundle = false
		case f == "splitting":
			o.Splitting = true
		case f == "metafile":
			o.Metafile = true
		case f == "nosc":
			o.SourcesContent = api.SourcesContentExclude
		case f == "shake=false":
			o.TreeShaking = api.TreeShakingFalse
		case f == "shake=true":
			o.TreeShaking = api.TreeShakingTrue
		case strings.HasPrefix(f, "global="):
			o.GlobalName = f[7:]
		case strings.HasPrefix(f, "sourcemap="):
			switch f[10:] {
			case "inline":
				o.Sourcemap = api.SourceMapInline
			case "linked":
				o.Sourcemap = api.SourceMapLinked
			case "external":
				o.Sourcemap = api.SourceMapExternal
			case "both":
				o.Sourcemap = api.SourceMapInlineAndExternal
			}
		case strings.HasPrefix(f, "entrynames="):
			o.EntryNames = f[11:]
		case strings.HasPrefix(f, "chunknames="):
			o.ChunkNames = f[11:]
		case strings.HasPrefix(f, "assetnames="):
			o.AssetNames = f[11:]
		case strings.HasPrefix(f, "publicpath="):
			o.PublicPath = f[11:]
		case strings.HasPrefix(f, "mangleprops="):
			o.MangleProps = f[12:]
		case strings.HasPrefix(f, "legal="):
			switch f[6:] {
			case "linked":
				o.LegalComments = api.LegalCommentsLinked
			case "external":
				o.LegalComments = api.LegalCommentsExternal
			case "eof":
				o.LegalComments = api.LegalCommentsEndOfFile
			case "none":
				o.LegalComments = api.LegalCommentsNone
			}
		case strings.HasPrefix(f, "outext="):
			o.OutExtension = map[string]string{".js": f[7:]}
		case strings.HasPrefix(f, "loader:"):
			kv := strings.SplitN(f[7:], "=", 2)
			if o.Loader == nil {
				o.Loader = map[string]api.Loader{}
			}
			m := map[string]api.Loader{"file": api.LoaderFile, "copy": api.LoaderCopy, "text": api.LoaderText, "binary": api.LoaderBinary, "base64": api.LoaderBase64, "dataurl": api.LoaderDataURL, "json": api.LoaderJSON, "css": api.LoaderCSS, "js": api.LoaderJS, "local-css": api.LoaderLocalCSS}
			o.Loader[kv[0]] = m[kv[1]]
		}
	}
	return o
}

func buildSafe(o api.BuildOptions) (res api.BuildResult, panicked string) {
	defer func() {
		if r := recover(); r != nil {
			panicked = fmt.Sprint(r)
		}
	}()
	res = api.Build(o)
	return
}

type graphReplay struct {
	Files   map[string]string `json:"files"`
	Entries []string          `json:"entries"`
	OptName string            `json:"opt_name"`
	Diff    string            `json:"diff,omitempty"`
	Outputs map[string]string `json:"outputs,omitempty"`
}

func sameGraphResult(a, b graphResult, compareExports bool) (bool, string) {
	if ok, why := sameResult(nodeResult{Trace: a.Trace, Outcome: a.Outcome}, nodeResult{Trace: b.Trace, Outcome: b.Outcome}); !ok {
		return false, why
	}
	if compareExports && a.Exports != b.Exports {
		return false, fmt.Sprintf("exports %s vs %s", a.Exports, b.Exports)
	}
	return true, ""
}
