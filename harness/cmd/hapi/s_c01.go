package main

import (
	"encoding/json"
	"fmt"

	"github.com/evanw/esbuild/verifharness/gen"
)

// C01: transform WITHOUT minify-syntax/identifiers and without lowering must preserve behaviour,
// under any whitespace / charset / line-limit / format setting.
func c01Sets(r *gen.Rand) []optSet {
	names := []string{"default"}
	pick := func(xs ...string) string { return xs[r.Intn(len(xs))] }
	for i := 0; i < 3; i++ {
		n := pick("ascii", "utf8")
		if r.Bool() {
			n += ",mw"
		}
		if r.Chance(1, 3) {
			n += "," + pick("ll1", "ll10", "ll40", "ll80")
		}
		n += "," + pick("default", "fmt=esm", "fmt=cjs", "fmt=iife")
		if r.Chance(1, 4) {
			n += "," + pick("platform=node", "platform=browser", "platform=neutral")
		}
		names = append(names, n)
	}
	sets := []optSet{}
	for _, n := range names {
		sets = append(sets, mkSet(n))
	}
	return sets
}

func init() {
	searches["c01-prog"] = func(r *gen.Rand, count int, workdir string, rep *Report) {
		rep.Rule = "random terminating probe programs (gen/js.go, all ES2022 features) transformed without minify-syntax/identifiers/lowering under random charset/whitespace/line-limit/format sets; input and each output executed in Node vm contexts, traces (probe calls with deep-serialised args, exceptions) compared. non-trivial = input emitted >= 2 probe events"
		batch := 200
		for done := 0; done < count; done += batch {
			n := batch
			if count-done < n {
				n = count - done
			}
			cases := make([]progCase, n)
			for i := range cases {
				gr := r.Fork()
				f := gen.AllFeatures()
				g := gen.NewJSGen(gr, f, 60+gr.Intn(200))
				src := g.Program(3+gr.Intn(6), 2+gr.Intn(3))
				cases[i] = progCase{Source: src, Sets: c01Sets(gr)}
				mergeStats(rep, "gen:", g.Stats)
			}
			outs := runProgDiff(rep, workdir, "c01", cases, func(c progCase, s optSet, errs string) {
				rep.violate("c01/rejected-valid-input", "esbuild rejected a generated (valid) program: "+errs, progReplay{Source: c.Source, OptName: s.Name, Diff: errs})
			})
			if done == 0 && len(outs) > 0 {
				rep.Samples = append(rep.Samples, map[string]interface{}{"source": outs[0].Case.Source, "sets": fmt.Sprint(len(outs[0].Case.Sets)), "input_trace_len": len(outs[0].Original.Trace), "input_outcome": outs[0].Original.Outcome})
			}
		}
	}
	progReplayFn := func(c json.RawMessage, workdir string, rep *Report) {
		var pr progReplay
		json.Unmarshal(c, &pr)
		cases := []progCase{{Source: pr.Source, Sets: []optSet{mkSet(pr.OptName)}}}
		outs := runProgDiff(rep, workdir, "replay", cases, func(c progCase, s optSet, errs string) {
			rep.violate("replay/rejected", errs, nil)
		})
		rep.Samples = append(rep.Samples, outs[0].Original, outs[0].Results, outs[0].Outputs)
	}
	replays["c01-prog"] = progReplayFn
}
