package main

import (
	"encoding/json"
	"fmt"
	"os"
	"path"
	"path/filepath"
	"regexp"
	"strings"

	"github.com/evanw/esbuild/pkg/api"
	"github.com/evanw/esbuild/verifharness/gen"
)

var reUniqueKey = regexp.MustCompile(`[A-Za-z0-9_-]{16}[AC][0-9]{8}`)
var reImportSpec = regexp.MustCompile(`(?:from|import)\s*\(?\s*"(\.{1,2}/[^"]+)"`)
var reSourceMapURL = regexp.MustCompile(`(?m)^//# sourceMappingURL=([^\s]+)$`)

type c18Replay struct {
	Files   map[string]string `json:"files"`
	Files2  map[string]string `json:"files_after_edit"`
	Entries []string          `json:"entries"`
	OptName string            `json:"opt_name"`
	Edit    string            `json:"edit"`
	Diff    string            `json:"diff"`
}

func c18Build(dir string, files map[string]string, entries []string, v string) (map[string][]byte, string) {
	os.RemoveAll(dir)
	writeTree(dir, files)
	res, pan := buildSafe(buildOptsFromName(v, dir, entries, "out"))
	if pan != "" {
		return nil, "panic: " + pan
	}
	if len(res.Errors) > 0 {
		return nil, "error: " + msgsText(res.Errors)
	}
	out := map[string][]byte{}
	for _, f := range res.OutputFiles {
		rel, _ := filepath.Rel(dir, f.Path)
		out[filepath.ToSlash(rel)] = f.Contents
	}
	return out, ""
}

// refIntegrity: every relative import path / sourceMappingURL in an output names an emitted file;
// no unique-key placeholder survives.
func refIntegrity(outs map[string][]byte, publicPath string) [][2]string {
	var bad [][2]string
	for p, c := range outs {
		if !strings.HasSuffix(p, ".js") && !strings.HasSuffix(p, ".css") {
			continue
		}
		s := string(c)
		if k := reUniqueKey.FindString(s); k != "" {
			bad = append(bad, [2]string{"placeholder-survives", fmt.Sprintf("output %q contains an internal placeholder %q", p, k)})
		}
		for _, m := range reImportSpec.FindAllStringSubmatch(s, -1) {
			target := path.Join(path.Dir(p), m[1])
			if _, ok := outs[target]; !ok {
				bad = append(bad, [2]string{"dangling-import", fmt.Sprintf("output %q imports %q which was not emitted", p, m[1])})
			}
		}
		if publicPath != "" {
			re := regexp.MustCompile(regexp.QuoteMeta(publicPath) + `([^"'\s)]+)`)
			for _, m := range re.FindAllStringSubmatch(s, -1) {
				if _, ok := outs["out/"+m[1]]; !ok {
					bad = append(bad, [2]string{"dangling-public-path", fmt.Sprintf("output %q references %q which was not emitted", p, m[0])})
				}
			}
		}
		for _, m := range reSourceMapURL.FindAllStringSubmatch(s, -1) {
			if strings.HasPrefix(m[1], "data:") {
				continue
			}
			target := path.Join(path.Dir(p), m[1])
			if publicPath != "" && strings.HasPrefix(m[1], publicPath) {
				target = "out/" + m[1][len(publicPath):]
			}
			if _, ok := outs[target]; !ok {
				bad = append(bad, [2]string{"dangling-sourcemap", fmt.Sprintf("output %q links source map %q which was not emitted", p, m[1])})
			}
		}
	}
	return bad
}

// a name that carries a content hash: `-` + 8 characters of esbuild's base32 alphabet before the extension(s)
var reHashedName = regexp.MustCompile(`-[A-Z2-7]{8}(\.[A-Za-z0-9]+)*$`)

// hashPresence: when the entry template asks for a [hash], the file emitted for every entry point carries one
// (an empty hash gives `name-.ext`, a name that no longer identifies the bytes)
func hashPresence(outs map[string][]byte, entries []string, entryT string) [][2]string {
	var bad [][2]string
	if !strings.Contains(entryT, "[hash]") {
		return nil
	}
	for _, e := range entries {
		base := strings.TrimSuffix(path.Base(e), path.Ext(e))
		found := false
		for p := range outs {
			b := path.Base(p)
			if strings.HasPrefix(b, base+"-") && !strings.HasSuffix(b, ".map") && !strings.HasSuffix(b, ".LEGAL.txt") {
				found = true
				if !reHashedName.MatchString(b) {
					bad = append(bad, [2]string{"entry-name-without-hash", fmt.Sprintf("entry point %s is emitted as %q although the entry template is %q", e, p, entryT)})
				}
			}
		}
		if !found {
			bad = append(bad, [2]string{"entry-output-missing", fmt.Sprintf("no output named after entry point %s with template %q", e, entryT)})
		}
	}
	return bad
}

func init() {
	searches["c18-hash"] = func(r *gen.Rand, count int, workdir string, rep *Report) {
		rep.Rule = "random module graphs with 2-3 entry points, splitting, dynamic import, a file-loader asset, a copy-loader file (imported and/or an entry point itself) and entry and asset name templates each with or without [hash] (chunk names always hashed: unhashed chunk names collide by design); each graph is built, then rebuilt after one single-point edit (string literal in one module, comment-only edit, asset bytes, appended statement) and after an option change; oracles: a hashed path emitted by both builds has identical bytes; every entry point is emitted under a name with a non-empty hash when the entry template has [hash]; every relative import / public-path URL / sourceMappingURL names an emitted file; no `<16 base64url chars>[AC]<8 digits>` placeholder survives. non-trivial = the edit changed at least one output"
		for i := 0; i < count; i++ {
			gr := r.Fork()
			ents := 2 + gr.Intn(2)
			o := gen.GraphOpts{Modules: ents + 1 + gr.Intn(5), Entries: ents, AllowDyn: true, AllowCycle: gr.Bool(), AllowStar: gr.Bool(), AvoidInPlaceOrder: true}
			g := gen.GenGraph(gr, o)
			mergeStats(rep, "gen:", g.Stats)
			// each of the three templates has a [hash] or not, independently (a template without one gives names
			// that may keep their bytes or not; the oracles below look at names that carry a hash)
			entryT, chunkT, assetT := "[name]-[hash]", "c/[name]-[hash]", "a/[name]-[hash]"
			if gr.Chance(1, 4) {
				entryT = "[name]"
			}
			if gr.Chance(1, 3) {
				assetT = "a/[name]"
			}
			v := "fmt=esm,splitting,entrynames=" + entryT + ",chunknames=" + chunkT + ",assetnames=" + assetT
			pub := ""
			if gr.Chance(1, 3) {
				pub = "https://cdn.example/x/"
				v += ",publicpath=" + pub
			}
			if gr.Chance(1, 2) {
				v += ",sourcemap=" + pickS(gr, "linked", "external", "inline", "inline", "both")
			}
			if gr.Chance(1, 3) {
				v += pickS(gr, ",mw", ",ms,mi,mw")
			}
			if gr.Chance(1, 3) {
				v += pickS(gr, ",legal=linked", ",legal=external")
			}
			files := map[string]string{}
			for k, c := range g.Files {
				files[k] = c
			}
			if gr.Bool() {
				files["asset.bin"] = "ASSET-" + fmt.Sprint(gr.Intn(1000))
				files["m1.js"] = "import assetURL from \"./asset.bin\";\np(\"asset\", typeof assetURL);\n" + files["m1.js"]
				v += ",loader:.bin=file"
			}
			entries := append([]string{}, g.Entries...)
			if gr.Chance(1, 3) {
				// a copied file: imported, or an entry point itself (then it is named by the ENTRY template)
				files["data.dat"] = "DATA-" + fmt.Sprint(gr.Intn(1000))
				v += ",loader:.dat=copy"
				if gr.Bool() {
					files["m1.js"] = "import \"./data.dat\";\n" + files["m1.js"]
				}
				if gr.Chance(2, 3) {
					entries = append(entries, "data.dat")
				}
			}
			// a two-level chain of dynamic imports reached from the first entry point, and a function with a
			// local whose name only shows up in the source map's "names"
			files["dl1.js"] = "p(\"dl1:start\");\nexport const q = import(\"./dl2.js\");\nexport function zz(alpha) { const beta = alpha + 1; return beta * alpha; }\np(zz(2));\n"
			files["dl2.js"] = "p(\"dl2:start\");\nexport const w = 1;\n"
			files[g.Entries[0]] = files[g.Entries[0]] + "export const dlp = import(\"./dl1.js\");\n"
			if gr.Chance(1, 3) && strings.Contains(v, "sourcemap=") {
				v += ",nosc"
			}
			if strings.Contains(v, "legal=linked") || strings.Contains(v, "legal=external") {
				// legal comments that end up in <chunk>.LEGAL.txt files
				for _, k := range []string{g.Entries[0], "dl1.js", "m1.js"} {
					if c, ok := files[k]; ok && gr.Bool() {
						files[k] = "/*! legal in " + k + " */\n" + c
					}
				}
			}
			dirA := filepath.Join(workdir, fmt.Sprintf("c18-%d-a", i))
			dirB := filepath.Join(workdir, fmt.Sprintf("c18-%d-a", i)) // same absolute location: paths must not matter anyway
			A, errA := c18Build(dirA, files, entries, v)
			rep.Evaluations++
			if errA != "" {
				rep.violate("c18/build-failed", errA, c18Replay{Files: files, Entries: entries, OptName: v})
				continue
			}
			for _, b := range refIntegrity(A, pub) {
				rep.violate("c18/"+b[0], b[1], c18Replay{Files: files, Entries: entries, OptName: v, Diff: b[1]})
			}
			for _, b := range hashPresence(A, entries, entryT) {
				rep.violate("c18/"+b[0], b[1], c18Replay{Files: files, Entries: entries, OptName: v, Diff: b[1]})
			}
			// single-point edits
			nEdits := 3
			for e := 0; e < nEdits; e++ {
				files2 := map[string]string{}
				for k, c := range files {
					files2[k] = c
				}
				names := []string{}
				for _, m := range g.Modules {
					names = append(names, m.Path)
				}
				names = append(names, "dl1.js", "dl2.js", "dl2.js")
				target := names[gr.Intn(len(names))]
				edit := ""
				v2 := v
				choice := gr.Intn(8)
				if e == 0 && (strings.Contains(v, "legal=linked") || strings.Contains(v, "legal=external")) {
					choice = 7
				}
				switch choice {
				case 7:
					// the text of a legal comment that is written to a separate <chunk>.LEGAL.txt file
					if strings.Contains(v, "legal=linked") || strings.Contains(v, "legal=external") {
						if strings.Contains(files2[target], "/*! legal") {
							files2[target] = strings.Replace(files2[target], "/*! legal", "/*! LEGAL edited", 1)
						} else {
							files2[target] = "/*! legal in " + target + " */\n" + files2[target]
						}
						edit = "legal comment text in " + target
					} else {
						files2[target] = files2[target] + "// another trailing comment\n"
						edit = "comment-only edit in " + target
					}
				case 6:
					// rename a local to an anagram: with minified identifiers only "names" in the map changes
					files2["dl1.js"] = strings.Replace(files2["dl1.js"], "alpha", "halpa", -1)
					edit = "local rename in dl1.js"
				case 0:
					files2[target] = strings.Replace(files2[target], ":start\"", ":start-edited\"", 1)
					edit = "string literal in " + target
				case 1:
					files2[target] = files2[target] + "// trailing comment\n"
					edit = "comment-only edit in " + target
				case 2:
					files2[target] = files2[target] + "p(\"appended\");\n"
					edit = "appended statement in " + target
				case 3:
					if _, ok := files2["asset.bin"]; ok {
						files2["asset.bin"] = files2["asset.bin"] + "x"
						edit = "asset bytes"
					} else {
						files2[target] = strings.Replace(files2[target], ":end\"", ":end-edited\"", 1)
						edit = "string literal in " + target
					}
				case 4:
					if pub != "" {
						v2 = strings.Replace(v, pub, "https://other.example/y/", 1)
						edit = "public path option"
					} else {
						v2 = v + ",legal=none"
						files2[target] = "/*! legal */\n" + files2[target]
						edit = "legal comment + option"
					}
				default:
					files2[target] = strings.Replace(files2[target], "export let", "export  let", 1)
					edit = "whitespace-only edit in " + target
				}
				B, errB := c18Build(dirB, files2, entries, v2)
				if errB != "" {
					rep.stat("edit-build-failed")
					continue
				}
				rep.stat("edit:" + strings.Split(edit, " in ")[0])
				changed := false
				for p, ca := range A {
					if cb, ok := B[p]; ok {
						if string(ca) != string(cb) && !reHashedName.MatchString(p) {
							rep.stat("unhashed-name-changed-bytes")
						} else if string(ca) != string(cb) {
							rep.violate("c18/same-name-different-bytes", fmt.Sprintf("%q is emitted by both builds under the same name with different contents (edit: %s)", p, edit),
								c18Replay{Files: files, Files2: files2, Entries: entries, OptName: v + " -> " + v2, Edit: edit, Diff: p})
						}
					} else {
						changed = true
					}
				}
				if changed {
					rep.DistinctNontrivial++
				}
				pub2 := pub
				if v2 != v && pub != "" {
					pub2 = "https://other.example/y/"
				}
				for _, b := range refIntegrity(B, pub2) {
					rep.violate("c18/"+b[0], b[1], c18Replay{Files: files2, Entries: entries, OptName: v2, Diff: b[1]})
				}
				for _, b := range hashPresence(B, entries, entryT) {
					rep.violate("c18/"+b[0], b[1], c18Replay{Files: files2, Entries: entries, OptName: v2, Diff: b[1]})
				}
			}
			if len(rep.Samples) < 2 {
				keys := []string{}
				for p := range A {
					keys = append(keys, p)
				}
				rep.Samples = append(rep.Samples, map[string]interface{}{"variant": v, "outputs": keys})
			}
			os.RemoveAll(dirA)
		}
	}
	replays["c18-hash"] = func(c json.RawMessage, workdir string, rep *Report) {
		var cr c18Replay
		json.Unmarshal(c, &cr)
		vs := strings.Split(cr.OptName, " -> ")
		A, errA := c18Build(filepath.Join(workdir, "c18r"), cr.Files, cr.Entries, vs[0])
		if errA != "" {
			rep.violate("replay/build-failed", errA, nil)
			return
		}
		rep.Evaluations = 1
		for _, b := range refIntegrity(A, "") {
			rep.violate("replay/"+b[0], b[1], nil)
		}
		if m := regexp.MustCompile(`entrynames=([^,]*)`).FindStringSubmatch(vs[0]); m != nil {
			for _, b := range hashPresence(A, cr.Entries, m[1]) {
				rep.violate("replay/"+b[0], b[1], nil)
			}
		}
		if cr.Files2 != nil {
			B, _ := c18Build(filepath.Join(workdir, "c18r"), cr.Files2, cr.Entries, vs[len(vs)-1])
			for p, ca := range A {
				if cb, ok := B[p]; ok && string(ca) != string(cb) && reHashedName.MatchString(p) {
					rep.violate("replay/same-name-different-bytes", p, nil)
				}
			}
		}
	}
	_ = api.BuildOptions{}
}
