// hapi: end-to-end search harness using esbuild's public API (pkg/api) only, so that it keeps
// building when internal packages are refactored.
//
//	hapi <search> <seed> <count> <workdir>      -> JSON report on stdout
//	hapi replay <replay.json> <workdir>         -> re-run one recorded case
package main

import (
	"encoding/json"
	"fmt"
	"os"
	"sort"
	"strconv"
	"strings"

	"github.com/evanw/esbuild/verifharness/gen"
)

type Violation struct {
	Class  string      `json:"class"`  // structural fingerprint, matched against known-findings.jsonl
	What   string      `json:"what"`   // human readable
	Replay interface{} `json:"replay"` // enough to re-run the case
}

type Report struct {
	Evaluations        int            `json:"evaluations"`
	DistinctNontrivial int            `json:"distinct_nontrivial"`
	Rule               string         `json:"rule"`
	Distribution       map[string]int `json:"distribution"`
	Samples            []interface{}  `json:"samples"`
	Violations         []Violation    `json:"violations"`
	Inconclusive       int            `json:"inconclusive"`
}

func (r *Report) stat(k string) {
	if r.Distribution == nil {
		r.Distribution = map[string]int{}
	}
	r.Distribution[k]++
}

func (r *Report) violate(class, what string, replay interface{}) {
	// keep at most 3 per class
	n := 0
	for _, v := range r.Violations {
		if v.Class == class {
			n++
		}
	}
	if n < 3 {
		r.Violations = append(r.Violations, Violation{class, what, replay})
	}
}

type searchFn func(r *gen.Rand, count int, workdir string, rep *Report)
type replayFn func(c json.RawMessage, workdir string, rep *Report)

var searches = map[string]searchFn{}
var replays = map[string]replayFn{}

func main() {
	if len(os.Args) == 4 && os.Args[1] == "c16-worker" {
		fuzzWorker(os.Args[2], os.Args[3])
		return
	}
	if len(os.Args) < 4 {
		names := []string{}
		for k := range searches {
			names = append(names, k)
		}
		sort.Strings(names)
		fmt.Fprintln(os.Stderr, "usage: hapi <search> <seed> <count> <workdir> | hapi replay <file> <workdir>; searches:", names)
		os.Exit(2)
	}
	rep := &Report{Distribution: map[string]int{}, Samples: []interface{}{}, Violations: []Violation{}}
	if os.Args[1] == "replay" {
		data, err := os.ReadFile(os.Args[2])
		if err != nil {
			panic(err)
		}
		var obj struct {
			Search string          `json:"search"`
			Case   json.RawMessage `json:"case"`
		}
		if err := json.Unmarshal(data, &obj); err != nil {
			panic(err)
		}
		f, ok := replays[obj.Search]
		if !ok {
			fmt.Fprintln(os.Stderr, "no replay for search", obj.Search)
			os.Exit(2)
		}
		f(obj.Case, os.Args[3], rep)
	} else {
		f, ok := searches[os.Args[1]]
		if !ok {
			fmt.Fprintln(os.Stderr, "unknown search", os.Args[1])
			os.Exit(2)
		}
		seed, _ := strconv.ParseUint(os.Args[2], 10, 64)
		count, _ := strconv.Atoi(os.Args[3])
		f(gen.New(seed), count, os.Args[4], rep)
		// minimise the first violation of each class that carries a program
		seen := map[string]bool{}
		for i := range rep.Violations {
			v := &rep.Violations[i]
			pr, ok := v.Replay.(progReplay)
			if !ok || seen[v.Class] || len(seen) >= 4 {
				continue
			}
			seen[v.Class] = true
			parts := strings.Split(v.Class, "/")
			if len(parts) < 2 {
				continue
			}
			small := minimizeProg(pr.Source, pr.OptName, parts[1], os.Args[4])
			if len(small) < len(pr.Source) {
				pr.MinimisedFrom = len(pr.Source)
				pr.Source = small
				if res, pan := transformSafe(small, optsFromName(pr.OptName)); pan == "" {
					pr.Output = string(res.Code)
				}
				v.Replay = pr
			}
		}
	}
	js, _ := json.Marshal(rep)
	os.Stdout.Write(js)
}
