//go:build verif
// +build verif

package main

import "github.com/evanw/esbuild/pkg/api"

// rebuildForWatch: rebuild with watch data collection on; the returned function evaluates the watch predicates
// of that build synchronously (verif-tagged accessor in pkg/api).
func rebuildForWatch(ctx api.BuildContext) (api.BuildResult, func() []string) {
	return api.VerifRebuildForWatch(ctx)
}
