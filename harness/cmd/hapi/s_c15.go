package main

import (
	"encoding/json"
	"fmt"
	"os"
	"path/filepath"
	"regexp"
	"sort"
	"strings"

	"github.com/evanw/esbuild/pkg/api"
	"github.com/evanw/esbuild/verifharness/gen"
)

// c15-scope: scope-heavy scripts (gen/scope.go) are transformed with identifier minification in several
// settings and executed next to the original; any capture, collision with a free global, or pinned name that
// got renamed changes the probe trace.
//
// c15-mangle: one property name must get one new name everywhere in a build (several entry points, with and
// without splitting and mangle cache), and the returned mangle cache must agree with the emitted code.

type c15MangleReplay struct {
	Files   map[string]string `json:"files"`
	Entries []string          `json:"entries"`
	OptName string            `json:"opt_name"`
	Diff    string            `json:"diff,omitempty"`
}

func c15MangleCase(rep *Report, workdir, class string, files map[string]string, entries []string, opt string) {
	dir := filepath.Join(workdir, "c15m")
	os.RemoveAll(dir)
	writeTree(dir, files)
	defer os.RemoveAll(dir)
	bo := buildOptsFromName(opt, dir, entries, "out")
	bo.MangleProps = "_$"
	withCache := strings.Contains(opt, "manglecache")
	if withCache {
		bo.MangleCache = map[string]interface{}{"pinned_": "PIN", "kept_": false}
	}
	res, pan := buildSafe(bo)
	rep.Evaluations++
	rp := c15MangleReplay{Files: files, Entries: entries, OptName: opt}
	if pan != "" {
		rep.violate(class+"/panic", pan, rp)
		return
	}
	if len(res.Errors) > 0 {
		rep.violate(class+"/build-error", msgsText(res.Errors), rp)
		return
	}
	rep.DistinctNontrivial++
	// every source line `mark("<prop>", o.<prop>)` keeps the original name in the string and the mangled name
	// after the dot: collect prop -> set of output names over all output files
	seen := map[string]map[string]bool{}
	for _, f := range res.OutputFiles {
		if !strings.HasSuffix(f.Path, ".js") {
			continue
		}
		text := string(f.Contents)
		for _, m := range reMark.FindAllStringSubmatch(text, -1) {
			if seen[m[1]] == nil {
				seen[m[1]] = map[string]bool{}
			}
			seen[m[1]][m[2]] = true
		}
	}
	props := []string{}
	for p := range seen {
		props = append(props, p)
	}
	sort.Strings(props)
	for _, p := range props {
		names := []string{}
		for n := range seen[p] {
			names = append(names, n)
		}
		sort.Strings(names)
		if len(names) > 1 {
			rp.Diff = fmt.Sprintf("property %s is emitted as %v", p, names)
			cls := class + "/property-renamed-inconsistently"
			if len(entries) > 1 && !strings.Contains(opt, "splitting") && !withCache {
				// every entry point linked on its own with an empty table: known finding
				// c15-mangle-props-differ-between-entry-points
				cls += ":separate-links"
			}
			rep.violate(cls, rp.Diff+" within one build ("+opt+")", rp)
			return
		}
		if res.MangleCache != nil {
			if v, ok := res.MangleCache[p]; ok {
				if s, isStr := v.(string); isStr && s != names[0] {
					rp.Diff = fmt.Sprintf("property %s is emitted as %s but the returned mangle cache says %s", p, names[0], s)
					rep.violate(class+"/mangle-cache-disagrees", rp.Diff, rp)
					return
				}
				if b, isBool := v.(bool); isBool && !b && names[0] != p {
					rp.Diff = fmt.Sprintf("property %s is pinned (false) in the mangle cache but emitted as %s", p, names[0])
					rep.violate(class+"/mangle-cache-disagrees", rp.Diff, rp)
					return
				}
			} else if withCache {
				rp.Diff = fmt.Sprintf("property %s was mangled to %s but is missing from the returned mangle cache", p, names[0])
				rep.violate(class+"/mangle-cache-incomplete", rp.Diff, rp)
				return
			}
		}
	}
	// two different properties must not share a new name
	byName := map[string]string{}
	for _, p := range props {
		for n := range seen[p] {
			if q, ok := byName[n]; ok && q != p {
				rp.Diff = fmt.Sprintf("properties %s and %s are both emitted as %s", q, p, n)
				cls := class + "/two-properties-one-name"
				if len(entries) > 1 && !strings.Contains(opt, "splitting") && !withCache {
					// every entry point linked on its own with an empty table: the other face of the known
					// finding c15-mangle-props-differ-between-entry-points
					cls += ":separate-links"
				}
				rep.violate(cls, rp.Diff, rp)
				return
			}
			byName[n] = p
		}
	}
}

func init() {
	searches["c15-scope"] = func(r *gen.Rand, count int, workdir string, rep *Report) {
		rep.Rule = "sloppy scripts from gen/scope.go: nested function/arrow/block/catch/for/class/label scopes re-using 8 names (shadowing), var hoisting, functions in blocks, parameter defaults reading outer names, named function expressions, private names, closures, direct eval and with, and reads of ~60 free globals named like minified identifiers (a..z, A..Z, _, $, aa, x2 ...) that the program defines on globalThis; transformed with --minify-identifiers (x minify-syntax/whitespace, keep-names, iife/cjs wrappers, lower targets); original and outputs run in Node, traces compared. Also JSX element names under --jsx=preserve: the renamed component must not collide with a free global (text check). non-trivial = input emitted >= 2 probe events"
		batch := 100
		for done := 0; done < count; done += batch {
			n := batch
			if count-done < n {
				n = count - done
			}
			cases := make([]progCase, n)
			for i := range cases {
				gr := r.Fork()
				g := gen.NewScopeGen(gr)
				names := []string{"mi", "ms,mi,mw", pickS(gr, "mi,kn", "mi,fmt=iife", "mi,fmt=cjs", "mi,ms,target=es2015", "mi,mw,fmt=iife,kn", "mi,target=es2017")}
				sets := []optSet{}
				for _, nm := range names {
					sets = append(sets, mkSet(nm))
				}
				cases[i] = progCase{Source: g.Program(), Sets: sets}
				mergeStats(rep, "gen:", g.Stats)
			}
			outs := runProgDiff(rep, workdir, "c15", cases, func(c progCase, s optSet, errs string) {
				rep.violate("c15/rejected-valid-input", "esbuild rejected a generated (valid) program: "+errs, progReplay{Source: c.Source, OptName: s.Name, Diff: errs})
			})
			if done == 0 && len(outs) > 0 {
				rep.Samples = append(rep.Samples, map[string]interface{}{"source": outs[0].Case.Source, "input_trace_len": len(outs[0].Original.Trace), "input_outcome": outs[0].Original.Outcome})
			}
			// the same kind of program as a strict ES module next to a lib.js with the same top-level names,
			// bundled (with and without identifier minification): native execution vs bundle
			gcases := []c02Case{}
			for i := 0; i < n/5+1; i++ {
				gr := r.Fork()
				g := gen.NewScopeGen(gr)
				files := g.Module()
				mergeStats(rep, "gen-module:", g.Stats)
				gcases = append(gcases, c02Case{g: &gen.Graph{Files: files, Entries: []string{"main.js"}}, variants: []string{"fmt=esm", "fmt=esm,mi", pickS(gr, "fmt=cjs,platform=node,mi", "fmt=iife,global=G,ms,mi,mw", "fmt=esm,mi,kn", "fmt=esm,splitting,mi")}})
			}
			runGraphDiff(rep, filepath.Join(workdir, "c15-mod"), "c15-module", gcases, false)

			// JSX element names (output is JSX text, so a text check instead of execution): components are
			// renamed to capitalised names; all 26 capital letters, _ and $ are free globals of the file
			for i := 0; i < n/4+1; i++ {
				gr := r.Fork()
				k := 1 + gr.Intn(4)
				var sb strings.Builder
				frees := []string{}
				for _, c := range "ABCDEFGHIJKLMNOPQRSTUVWXYZ_$" {
					if gr.Chance(9, 10) {
						frees = append(frees, string(c))
					}
				}
				for j := 0; j < k; j++ {
					fmt.Fprintf(&sb, "function Component%d() { return null }\n", j)
				}
				sb.WriteString("export function render() {\n  use(" + strings.Join(frees, ", ") + ");\n  return [")
				for j := 0; j < k; j++ {
					fmt.Fprintf(&sb, "<Component%d/>, ", j)
				}
				sb.WriteString("];\n}\n")
				res, pan := transformSafe(sb.String(), api.TransformOptions{Loader: api.LoaderJSX, JSX: api.JSXPreserve, MinifyIdentifiers: true, Format: api.FormatESModule, LogLevel: api.LogLevelSilent})
				rep.Evaluations++
				rep.stat("jsx-preserve-case")
				if pan != "" || len(res.Errors) > 0 {
					rep.violate("c15/jsx-case-failed", pan+msgsText(res.Errors), progReplay{Source: sb.String(), OptName: "jsx=preserve,mi"})
					continue
				}
				out := string(res.Code)
				for _, m := range reFuncName.FindAllStringSubmatch(out, -1) {
					for _, f := range frees {
						if m[1] == f {
							rep.violate("c15/declared-name-collides-with-free-global", fmt.Sprintf("a function is renamed to %q, which the same file reads as a free global", f), progReplay{Source: sb.String(), OptName: "jsx=preserve,mi", Diff: out})
						}
					}
				}
			}
		}
	}
	replays["c15-scope"] = replays["c01-prog"]

	searches["c15-mangle"] = func(r *gen.Rand, count int, workdir string, rep *Report) {
		rep.Rule = "builds with --mangle-props=_$ over 1-3 entry points that share modules and property names (different use counts per entry so that frequency order differs), x bundle with/without splitting x mangle cache with pinned and reserved entries x minify; every `mark(\"name_\", o.name_)` line in every output file must show ONE new name per property across the whole build, different properties different names, and the returned mangle cache must agree. non-trivial = build succeeded"
		for i := 0; i < count; i++ {
			gr := r.Fork()
			props := []string{"foo_", "bar_", "baz_", "qux_", "pinned_", "kept_", "zed_"}
			files := map[string]string{}
			nEnt := 1 + gr.Intn(3)
			shared := gr.Bool()
			if shared {
				var sb strings.Builder
				sb.WriteString("export const o = {};\n")
				for _, p := range props {
					if gr.Bool() {
						fmt.Fprintf(&sb, "mark(%q, o.%s);\n", p, p)
					}
				}
				files["shared.js"] = sb.String()
			}
			entries := []string{}
			for e := 0; e < nEnt; e++ {
				var sb strings.Builder
				if shared {
					sb.WriteString("import { o } from \"./shared.js\";\n")
				} else {
					sb.WriteString("const o = globalThis.o;\n")
				}
				for _, p := range props {
					for k, c := 0, gr.Intn(4); k < c; k++ {
						fmt.Fprintf(&sb, "mark(%q, o.%s);\n", p, p)
					}
				}
				name := fmt.Sprintf("e%d.js", e)
				files[name] = sb.String()
				entries = append(entries, name)
			}
			opt := "fmt=esm" + pickS(gr, "", ",splitting", ",splitting") + pickS(gr, "", ",ms", ",ms,mi,mw") + pickS(gr, "", ",manglecache")
			c15MangleCase(rep, workdir, "c15m", files, entries, opt)
		}
	}
	replays["c15-mangle"] = func(c json.RawMessage, workdir string, rep *Report) {
		var rp c15MangleReplay
		json.Unmarshal(c, &rp)
		c15MangleCase(rep, workdir, "replay", rp.Files, rp.Entries, rp.OptName)
	}
}

var reMark = regexp.MustCompile(`mark\("([A-Za-z_]+)",\s*o\.([A-Za-z_$0-9]+)\)`)
var reFuncName = regexp.MustCompile(`function ([A-Za-z_$][A-Za-z_$0-9]*)\(`)
