package main

import (
	"crypto/sha256"
	"encoding/json"
	"fmt"
	"os"
	"path/filepath"
	"runtime"
	"sort"
	"strings"
	"sync"
	"time"

	"github.com/evanw/esbuild/pkg/api"
	"github.com/evanw/esbuild/verifharness/gen"
)

// c08-det: the same project is built repeatedly in one process under different GOMAXPROCS, with a plugin that
// delays the loading of each file by a different random amount (so files finish in a different order every
// time), with sibling builds running concurrently, and from a copy of the project at another absolute path.
// Every observable part of the result is fingerprinted and must be identical across all runs.

type detProject struct {
	Files   map[string]string `json:"files"`
	Entries []string          `json:"entries"`
	OptName string            `json:"opt_name"`
	Mangle  bool              `json:"mangle"`
	Cache   map[string]string `json:"cache,omitempty"`
	Diff    string            `json:"diff,omitempty"`
}

// genDetProject builds a module graph at least three levels deep with many similarly sized siblings:
// entry -> siblings -> each sibling's own leaf (+ shared leaves), colliding top-level names, property names
// to mangle with equal use counts spread over the second and third level, imports of missing exports that
// have several near-miss candidates (typo suggestions), CSS and file-loader assets.
func genDetProject(r *gen.Rand, rep *Report) detProject {
	p := detProject{Files: map[string]string{}}
	nEnt := 1 + r.Intn(3)
	nSib := 4 + r.Intn(10)
	nShared := 1 + r.Intn(3)
	p.Mangle = r.Chance(2, 3)
	typos := r.Chance(1, 2)
	css := r.Chance(1, 2)
	assets := r.Chance(1, 3)
	props := []string{"alpha_", "beta_", "gamma_", "delta_", "eps_", "zeta_", "eta_", "theta_"}
	for s := 0; s < nShared; s++ {
		var sb strings.Builder
		fmt.Fprintf(&sb, "export const alphaValue1 = %d, alphaValue2 = %d, alphaValue3 = %d, alphaValue4 = %d;\n", s, s+1, s+2, s+3)
		fmt.Fprintf(&sb, "export function helper(o) { return o.%s + o.%s; }\nlet x = %d;\nexport function bump() { return ++x; }\n", props[(2*s)%len(props)], props[(2*s+1)%len(props)], s)
		p.Files[fmt.Sprintf("shared%d.js", s)] = sb.String()
	}
	for i := 0; i < nSib; i++ {
		var sb strings.Builder
		fmt.Fprintf(&sb, "import { leaf%d } from \"./leaf%d.js\";\n", i, i)
		sh := r.Intn(nShared)
		fmt.Fprintf(&sb, "import { helper, bump } from \"./shared%d.js\";\n", sh)
		if typos && r.Chance(1, 3) {
			fmt.Fprintf(&sb, "import * as ns%d from \"./shared%d.js\";\nconsole.log(ns%d.alphaValue9);\n", i, sh, i)
			rep.stat("project:typo-warning")
		}
		if css && r.Chance(1, 3) {
			fmt.Fprintf(&sb, "import \"./style%d.css\";\n", i)
			p.Files[fmt.Sprintf("style%d.css", i)] = fmt.Sprintf(".c%d { color: #%02x%02x%02x; margin: %dpx }\n@media (min-width: %dpx) { .c%d { color: red } }\n", i, i*7%256, i*13%256, i*29%256, i, 100*i, i)
		}
		if assets && r.Chance(1, 3) {
			fmt.Fprintf(&sb, "import url%d from \"./data%d.txt\";\nconsole.log(url%d);\n", i, i, i)
			p.Files[fmt.Sprintf("data%d.txt", i)] = fmt.Sprintf("asset %d\n", i)
		}
		// every sibling has the same shape (same size, same parse time) and uses two mangle candidates once
		a, b := props[(i)%len(props)], props[(i+3)%len(props)]
		fmt.Fprintf(&sb, "let x = %d;\nfunction local() { return x; }\nexport function sib%d(o) { o.%s = local(); o.%s = leaf%d(o); return helper(o) + bump(); }\n", i, i, a, b, i)
		p.Files[fmt.Sprintf("sib%d.js", i)] = sb.String()
		var lb strings.Builder
		c, d := props[(i+1)%len(props)], props[(i+5)%len(props)]
		fmt.Fprintf(&lb, "let x = \"leaf%d\";\nexport function leaf%d(o) { o.%s = x; return { %s: o.%s, own%d_: 1 }; }\n", i, i, c, d, c, i)
		p.Files[fmt.Sprintf("leaf%d.js", i)] = lb.String()
	}
	// an ambiguous name: two "export *" of one module provide the same name from two files, and each of those
	// files is first reached through a DIFFERENT sibling (so the order in which they are discovered, and with
	// it their raw source index, depends on which sibling finishes loading first)
	ambig := r.Chance(1, 3)
	ambigErr := ambig && r.Chance(1, 3)
	if ambig {
		p.Files["amb_a.js"] = "export const dup = \"a\", onlyA = 1;\n"
		p.Files["amb_b.js"] = "export const dup = \"b\", onlyB = 2;\n"
		p.Files["common.js"] = "export * from \"./amb_a.js\";\nexport * from \"./amb_b.js\";\n"
		i, j := r.Intn(nSib), r.Intn(nSib)
		if i == j {
			j = (i + 1) % nSib
		}
		p.Files[fmt.Sprintf("sib%d.js", i)] = "import { onlyB } from \"./amb_b.js\";\nconsole.log(onlyB);\n" + p.Files[fmt.Sprintf("sib%d.js", i)]
		p.Files[fmt.Sprintf("sib%d.js", j)] = "import { onlyA } from \"./amb_a.js\";\nconsole.log(onlyA);\n" + p.Files[fmt.Sprintf("sib%d.js", j)]
		rep.stat("project:ambiguous-star-export")
	}
	for e := 0; e < nEnt; e++ {
		var sb strings.Builder
		if ambig && e == 0 {
			if ambigErr {
				sb.WriteString("import { dup } from \"./common.js\";\nconsole.log(dup);\n")
			} else {
				sb.WriteString("import * as cns from \"./common.js\";\nconsole.log(cns.dup);\n")
			}
		}
		for i := 0; i < nSib; i++ {
			if e == 0 || r.Chance(2, 3) {
				fmt.Fprintf(&sb, "import { sib%d } from \"./sib%d.js\";\nconsole.log(sib%d({}));\n", i, i, i)
			}
		}
		if r.Chance(1, 3) {
			fmt.Fprintf(&sb, "import(\"./sib%d.js\").then(m => console.log(m));\n", r.Intn(nSib))
		}
		name := fmt.Sprintf("entry%d.js", e)
		p.Files[name] = sb.String()
		p.Entries = append(p.Entries, name)
	}
	opt := pickS(r, "fmt=esm", "fmt=esm,splitting", "fmt=esm,splitting", "fmt=cjs", "fmt=iife")
	opt += pickS(r, "", ",mi", ",ms,mi,mw", ",ms")
	opt += pickS(r, "", ",sourcemap=external", ",sourcemap=linked")
	opt += pickS(r, "", ",entrynames=[name]-[hash],chunknames=c-[hash]")
	opt += ",metafile"
	if assets {
		opt += ",loader:.txt=file"
	}
	p.OptName = opt
	if p.Mangle && r.Chance(1, 3) {
		p.Cache = map[string]string{"alpha_": "A", "keep_": "K"}
	}
	rep.stat(fmt.Sprintf("project:entries=%d", nEnt))
	if p.Mangle {
		rep.stat("project:mangle-props")
	}
	if strings.Contains(opt, "splitting") {
		rep.stat("project:splitting")
	}
	return p
}

func detFingerprint(res api.BuildResult, absDir string) map[string]string {
	fp := map[string]string{}
	for _, f := range res.OutputFiles {
		rel, _ := filepath.Rel(absDir, f.Path)
		h := sha256.Sum256(f.Contents)
		fp["out:"+filepath.ToSlash(rel)] = fmt.Sprintf("%x", h[:8])
	}
	fp["metafile"] = fmt.Sprintf("%x", sha256.Sum256([]byte(res.Metafile)))[:16]
	if res.MangleCache != nil {
		keys := []string{}
		for k := range res.MangleCache {
			keys = append(keys, k)
		}
		sort.Strings(keys)
		parts := []string{}
		for _, k := range keys {
			parts = append(parts, fmt.Sprintf("%s=%v", k, res.MangleCache[k]))
		}
		fp["manglecache"] = strings.Join(parts, ",")
	}
	msg := func(ms []api.Message) string {
		parts := []string{}
		for _, m := range ms {
			s := m.Text
			if m.Location != nil {
				s += fmt.Sprintf("@%s:%d:%d[%s]", m.Location.File, m.Location.Line, m.Location.Column, m.Location.Suggestion)
			}
			for _, n := range m.Notes {
				s += " note:" + n.Text
				if n.Location != nil {
					s += fmt.Sprintf("@%s:%d:%d[%s]", n.Location.File, n.Location.Line, n.Location.Column, n.Location.Suggestion)
				}
			}
			parts = append(parts, s)
		}
		return strings.Join(parts, " || ")
	}
	fp["errors"] = msg(res.Errors)
	fp["warnings"] = msg(res.Warnings)
	return fp
}

func detDiff(a, b map[string]string) string {
	keys := map[string]bool{}
	for k := range a {
		keys[k] = true
	}
	for k := range b {
		keys[k] = true
	}
	ks := []string{}
	for k := range keys {
		ks = append(ks, k)
	}
	sort.Strings(ks)
	for _, k := range ks {
		if a[k] != b[k] {
			x, y := a[k], b[k]
			if len(x) > 300 {
				x = x[:300]
			}
			if len(y) > 300 {
				y = y[:300]
			}
			return fmt.Sprintf("%s: %q vs %q", k, x, y)
		}
	}
	return ""
}

func detBuild(p detProject, absDir string, delaySeed uint64, withDelays bool) (api.BuildResult, string) {
	bo := buildOptsFromName(p.OptName, absDir, p.Entries, "out")
	bo.LogLevel = api.LogLevelSilent
	if p.Mangle {
		bo.MangleProps = "_$"
		if p.Cache != nil {
			bo.MangleCache = map[string]interface{}{}
			for k, v := range p.Cache {
				bo.MangleCache[k] = v
			}
		}
	}
	if withDelays {
		dr := gen.New(delaySeed)
		var mu sync.Mutex
		bo.Plugins = []api.Plugin{{Name: "delay", Setup: func(b api.PluginBuild) {
			b.OnLoad(api.OnLoadOptions{Filter: `.*`}, func(a api.OnLoadArgs) (api.OnLoadResult, error) {
				mu.Lock()
				d := dr.Intn(4000)
				mu.Unlock()
				time.Sleep(time.Duration(d) * time.Microsecond)
				return api.OnLoadResult{}, nil
			})
		}}}
	}
	return buildSafe(bo)
}

func c08Case(rep *Report, r *gen.Rand, workdir string, class string, p detProject, runs int) {
	dirA := filepath.Join(workdir, "c08-a")
	dirB := filepath.Join(workdir, "c08-b", "nested", "elsewhere")
	os.RemoveAll(dirA)
	os.RemoveAll(filepath.Join(workdir, "c08-b"))
	writeTree(dirA, p.Files)
	writeTree(dirB, p.Files)
	defer os.RemoveAll(dirA)
	defer os.RemoveAll(filepath.Join(workdir, "c08-b"))
	defer runtime.GOMAXPROCS(runtime.GOMAXPROCS(0))
	rep.Evaluations++

	base, pan := detBuild(p, dirA, 0, false)
	if pan != "" {
		rep.violate(class+"/panic", pan, p)
		return
	}
	ref := detFingerprint(base, dirA)
	if len(base.Errors) > 0 {
		rep.stat("build-error")
	}
	if len(base.Warnings) > 0 {
		rep.stat("has-warnings")
	}
	rep.DistinctNontrivial++
	procs := []int{1, 2, 3, 4, 8, 16}
	for k := 0; k < runs; k++ {
		runtime.GOMAXPROCS(procs[r.Intn(len(procs))])
		mode := k % 4
		var fp map[string]string
		where := ""
		switch mode {
		case 0, 1: // delayed loads
			res, pan := detBuild(p, dirA, r.U64(), true)
			if pan != "" {
				rep.violate(class+"/panic", pan, p)
				return
			}
			fp, where = detFingerprint(res, dirA), "delayed loads"
			rep.stat("run:delayed")
		case 2: // concurrent siblings
			var wg sync.WaitGroup
			results := make([]api.BuildResult, 3)
			for j := range results {
				wg.Add(1)
				seed := r.U64()
				go func(j int) {
					defer wg.Done()
					results[j], _ = detBuild(p, dirA, seed, j != 0)
				}(j)
			}
			wg.Wait()
			fp, where = detFingerprint(results[0], dirA), "concurrent sibling builds"
			for j := 1; j < len(results); j++ {
				if d := detDiff(ref, detFingerprint(results[j], dirA)); d != "" {
					p.Diff = d
					rep.violate(class+"/differs-concurrent", "a build running beside two others differs from the reference build: "+d, p)
					return
				}
			}
			rep.stat("run:concurrent")
		default: // other absolute location
			res, pan := detBuild(p, dirB, r.U64(), r.Bool())
			if pan != "" {
				rep.violate(class+"/panic", pan, p)
				return
			}
			fp, where = detFingerprint(res, dirB), "project copied to another absolute path"
			rep.stat("run:moved")
		}
		if d := detDiff(ref, fp); d != "" {
			p.Diff = d
			cls := class + "/differs"
			if strings.HasPrefix(d, "errors") || strings.HasPrefix(d, "warnings") {
				cls = class + "/diagnostics-differ"
			} else if strings.HasPrefix(d, "manglecache") {
				cls = class + "/mangle-cache-differs"
			}
			rep.violate(cls, fmt.Sprintf("run %d (%s, GOMAXPROCS=%d) differs from the reference build: %s", k, where, runtime.GOMAXPROCS(0), d), p)
			return
		}
	}
}

func init() {
	searches["c08-det"] = func(r *gen.Rand, count int, workdir string, rep *Report) {
		rep.Rule = "projects with 1-3 entry points, 4-13 same-shaped siblings each with its own leaf, shared leaves, colliding top-level names, mangled properties with equal use counts (x mangle cache), missing imports with several typo candidates, an ambiguous name provided by two export-star files that are first reached through different siblings (warning or error with two notes), CSS and file assets; x format/splitting/minify/sourcemap/name templates. Each is built once as reference and then 8 (quick) or 24 (thorough) more times in the same process: with per-file random load delays, under GOMAXPROCS in {1,2,3,4,8,16}, beside two concurrent sibling builds, and from a copy at another absolute path. Output file names+contents, metafile, mangle cache, errors and warnings (text, location, notes, suggestions) must all be identical. Also: unresolvable entry points (diagnostics without location). non-trivial = every case"
		runs := 8
		if os.Getenv("VERIF_TIER") == "thorough" {
			runs = 24
		}
		for i := 0; i < count; i++ {
			gr := r.Fork()
			p := genDetProject(gr, rep)
			if gr.Chance(1, 8) {
				// several entry points that do not exist: diagnostics without a location
				for k := 0; k < 3+gr.Intn(4); k++ {
					p.Entries = append(p.Entries, fmt.Sprintf("missing%d.js", k))
				}
				rep.stat("project:missing-entries")
			}
			c08Case(rep, gr, workdir, "c08", p, runs)
		}
	}
	replays["c08-det"] = func(c json.RawMessage, workdir string, rep *Report) {
		var p detProject
		json.Unmarshal(c, &p)
		c08Case(rep, gen.New(1), workdir, "replay", p, 24)
	}
}
