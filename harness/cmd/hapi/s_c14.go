package main

import (
	"bufio"
	"encoding/json"
	"fmt"
	"os"
	"os/exec"
	"path/filepath"
	"strings"

	"github.com/evanw/esbuild/verifharness/gen"
)

type scanReq struct {
	ID        int             `json:"id"`
	Code      string          `json:"code"`
	Target    string          `json:"target"`
	Supported map[string]bool `json:"supported"`
}
type scanResp struct {
	ID         int      `json:"id"`
	Features   []string `json:"features"`
	Violations []string `json:"violations"`
	Exports    []string `json:"exports"`
	ExportStar bool     `json:"export_star"`
	Error      string   `json:"error"`
}

func runScan(reqs []scanReq) (map[int]scanResp, error) {
	bin := filepath.Join(os.Getenv("VERIF_BIN"), "hscan")
	if os.Getenv("VERIF_BIN") == "" {
		bin = "/verif/.build/bin/hscan"
	}
	cmd := exec.Command(bin)
	stdin, _ := cmd.StdinPipe()
	stdout, _ := cmd.StdoutPipe()
	cmd.Stderr = os.Stderr
	if err := cmd.Start(); err != nil {
		return nil, err
	}
	go func() {
		w := bufio.NewWriter(stdin)
		for _, r := range reqs {
			js, _ := json.Marshal(r)
			w.Write(js)
			w.WriteByte('\n')
		}
		w.Flush()
		stdin.Close()
	}()
	out := map[int]scanResp{}
	sc := bufio.NewScanner(stdout)
	sc.Buffer(make([]byte, 1<<20), 1<<28)
	for sc.Scan() {
		var r scanResp
		if json.Unmarshal(sc.Bytes(), &r) == nil {
			out[r.ID] = r
		}
	}
	return out, cmd.Wait()
}

// target and supported-overrides of an option-set name
func targetOf(name string) (string, map[string]bool) {
	t := "esnext"
	sup := map[string]bool{}
	for _, f := range strings.Split(name, ",") {
		if strings.HasPrefix(f, "target=") {
			t = f[7:]
		}
		if strings.HasPrefix(f, "engine=") {
			t = f
		}
		if strings.HasPrefix(f, "sup:") {
			kv := strings.SplitN(f[4:], "=", 2)
			sup[kv[0]] = len(kv) > 1 && kv[1] == "true"
		}
	}
	return t, sup
}

func init() {
	lowerable := []string{"optional-chain", "nullish-coalescing", "logical-assignment", "exponent-operator", "object-rest-spread", "class-field", "class-private-field", "class-private-method",
		"class-static-field", "class-static-blocks", "class-private-static-field", "class-private-brand-check", "async-await", "template-literal", "optional-catch-binding", "class-private-accessor", "class-private-static-method"}
	searches["c14-scan"] = func(r *gen.Rand, count int, workdir string, rep *Report) {
		rep.Rule = "random probe programs over the post-ES2015 feature set transformed for targets ES2015..ES2024 and per-feature supported:false/true overrides (x minify, x format); every error-free output is parsed for ESNext and scanned by an independent AST feature scanner (harness/cmd/hscan, reflection over js_ast); a feature that the target/overrides mark unsupported must not occur unless esbuild issued the documented warning for it. non-trivial = output contained >= 3 distinct features"
		batch := 300
		for done := 0; done < count; done += batch {
			n := batch
			if count-done < n {
				n = count - done
			}
			reqs := []scanReq{}
			type meta struct {
				src, opt, out, warn string
			}
			metas := []meta{}
			for i := 0; i < n; i++ {
				gr := r.Fork()
				g := gen.NewJSGen(gr, gen.AllFeatures(), 60+gr.Intn(150))
				src := g.Program(3+gr.Intn(5), 2+gr.Intn(3))
				mergeStats(rep, "gen:", g.Stats)
				targets := []string{"es2015", "es2016", "es2017", "es2018", "es2019", "es2020", "es2021", "es2022", "es2023", "es2024"}
				names := []string{"target=" + targets[gr.Intn(len(targets))] + pickS(gr, "", ",ms", ",ms,mi,mw", ",fmt=cjs", ",fmt=iife")}
				names = append(names, "sup:"+lowerable[gr.Intn(len(lowerable))]+"=false"+pickS(gr, "", ",ms"))
				names = append(names, "target="+targets[gr.Intn(5)]+",sup:"+lowerable[gr.Intn(len(lowerable))]+"=true")
				// TypeScript loader with class-field semantics selected by tsconfig, engine targets
				names = append(names, "loader=ts,tsconfig={\"compilerOptions\":{\"useDefineForClassFields\":"+pickS(gr, "true", "false")+"}},"+
					pickS(gr, "sup:class-static-blocks=false", "sup:class-static-field=false", "engine=chrome:80", "engine=node:14", "engine=safari:15", "target=es2022,sup:class-static-blocks=false", "sup:class-field=false"))
				names = append(names, pickS(gr, "engine=chrome:60", "engine=firefox:70", "engine=safari:12", "engine=node:10", "engine=edge:18", "engine=chrome:90", "engine=node:16")+pickS(gr, "", ",ms"))
				for _, name := range names {
					res, pan := transformSafe(src, optsFromName(name))
					rep.Evaluations++
					if pan != "" {
						rep.violate("c14/panic", pan, progReplay{Source: src, OptName: name})
						continue
					}
					if len(res.Errors) > 0 {
						rep.stat("transform-error")
						continue
					}
					t, sup := targetOf(name)
					reqs = append(reqs, scanReq{ID: len(metas), Code: string(res.Code), Target: t, Supported: sup})
					metas = append(metas, meta{src, name, string(res.Code), msgsText(res.Warnings)})
				}
			}
			resps, err := runScan(reqs)
			if err != nil {
				rep.stat("scan-error")
				fmt.Fprintln(os.Stderr, "hscan:", err)
			}
			for i, m := range metas {
				rs, ok := resps[i]
				if !ok {
					rep.Inconclusive++
					continue
				}
				if rs.Error != "" {
					rep.violate("c14/output-unparseable", "esbuild's own parser rejects the output: "+rs.Error, progReplay{Source: m.src, OptName: m.opt, Output: m.out, Diff: rs.Error})
					continue
				}
				if len(rs.Features) >= 3 {
					rep.DistinctNontrivial++
				}
				for _, v := range rs.Violations {
					// documented pass-through with a warning
					if v == "bigint" && strings.Contains(m.warn, "Big integer literals are not available") {
						rep.stat("bigint-warned")
						continue
					}
					rep.violate("c14/feature-leak/"+v, fmt.Sprintf("output for %s contains syntax feature %q that the target does not support (warnings: %q)", m.opt, v, m.warn), progReplay{Source: m.src, OptName: m.opt, Output: m.out, Diff: v})
				}
				if len(rep.Samples) < 2 {
					rep.Samples = append(rep.Samples, map[string]interface{}{"opt": m.opt, "features_in_output": rs.Features, "source": m.src})
				}
			}
		}
	}
	replays["c14-scan"] = func(c json.RawMessage, workdir string, rep *Report) {
		var pr progReplay
		json.Unmarshal(c, &pr)
		res, pan := transformSafe(pr.Source, optsFromName(pr.OptName))
		rep.Evaluations = 1
		if pan != "" || len(res.Errors) > 0 {
			return
		}
		t, sup := targetOf(pr.OptName)
		resps, _ := runScan([]scanReq{{ID: 0, Code: string(res.Code), Target: t, Supported: sup}})
		for _, v := range resps[0].Violations {
			if v == "bigint" && strings.Contains(msgsText(res.Warnings), "Big integer") {
				continue
			}
			rep.violate("replay/feature-leak/"+v, v, nil)
		}
	}
}
