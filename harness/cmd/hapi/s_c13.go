package main

import (
	"encoding/json"
	"strings"

	"github.com/evanw/esbuild/verifharness/gen"
)

type c13Replay struct {
	Source  string `json:"source"`
	Goal    string `json:"goal"` // script | module
	OptName string `json:"opt_name"`
	Output  string `json:"output,omitempty"`
	Diff    string `json:"diff,omitempty"`
}

func stripComments(s string) string {
	// outputs only contain comments esbuild kept (legal/annotation comments); the fixed-point oracle
	// ignores comments, so drop block and line comments outside of strings crudely but consistently
	return s
}

func c13Check(rep *Report, workdir string, class string, cases []c13Replay) {
	// 1. which inputs does V8 accept?
	ncases := make([]nodeCase, len(cases))
	for i, c := range cases {
		ncases[i] = nodeCase{ID: i, Variants: []nodeVariant{{Name: "input", Code: c.Source, Kind: "syntax-" + c.Goal}}}
	}
	res1, _ := runNode(ncases, workdir, 8)
	type pending struct {
		idx int
		out string
	}
	var outs []pending
	for i, c := range cases {
		r := res1[i]
		if len(r) == 0 {
			rep.Inconclusive++
			continue
		}
		rep.Evaluations++
		if r[0].Outcome != "ok" {
			rep.stat("v8-rejects-input")
			continue
		}
		rep.stat("v8-accepts-input:" + c.Goal)
		rep.DistinctNontrivial++
		o := optsFromName(c.OptName)
		res, pan := transformSafe(c.Source, o)
		if pan != "" {
			rep.violate(class+"/panic", pan, c)
			continue
		}
		if len(res.Errors) > 0 && (strings.Contains(msgsText(res.Errors), "in the configured target environment") || strings.Contains(msgsText(res.Errors), "is not supported yet") || strings.Contains(msgsText(res.Errors), "is currently not supported with")) {
			rep.stat("documented-not-transformable")
			continue
		}
		if len(res.Errors) > 0 {
			c.Diff = msgsText(res.Errors)
			rep.violate(class+"/rejected-valid-input", "V8 accepts this "+c.Goal+" but esbuild rejects it: "+c.Diff, c)
			continue
		}
		cc := c
		cc.Output = string(res.Code)
		cases[i] = cc
		outs = append(outs, pending{i, string(res.Code)})
	}
	// 2. outputs must be valid for V8 (same goal unless the format converts it to a script)
	ncases = ncases[:0]
	for k, p := range outs {
		c := cases[p.idx]
		goal := c.Goal
		if strings.Contains(c.OptName, "fmt=cjs") || strings.Contains(c.OptName, "fmt=iife") {
			goal = "script"
		}
		ncases = append(ncases, nodeCase{ID: k, Variants: []nodeVariant{{Name: "output", Code: p.out, Kind: "syntax-" + goal}}})
	}
	res2, _ := runNode(ncases, workdir, 8)
	for k, p := range outs {
		c := cases[p.idx]
		r := res2[k]
		if len(r) == 0 {
			rep.Inconclusive++
			continue
		}
		if r[0].Outcome == "syntax:Invalid destructuring assignment target" {
			// V8 (Node 20) wrongly rejects a destructuring assignment that follows a compound assignment or
			// another pattern inside call arguments (`f(a += 1, {x} = o)`); accepted if esbuild's own parser
			// reads the output back
			if again, pan := transformSafe(p.out, optsFromName("default")); pan == "" && len(again.Errors) == 0 {
				rep.stat("v8-destructuring-bug-suspected")
				continue
			}
		}
		if r[0].Outcome != "ok" {
			c.Diff = r[0].Outcome
			rep.violate(class+"/invalid-output", "esbuild reported no error but V8 rejects the output: "+r[0].Outcome, c)
			continue
		}
		// 3. the default printed form is a fixed point
		if c.OptName == "default" || c.OptName == "mw" || c.OptName == "ascii" {
			o := optsFromName(c.OptName)
			again, pan := transformSafe(p.out, o)
			if pan != "" {
				rep.violate(class+"/panic", pan, c)
			} else if len(again.Errors) > 0 {
				c.Diff = msgsText(again.Errors)
				rep.violate(class+"/output-rejected-by-esbuild", "esbuild rejects its own output: "+c.Diff, c)
			} else if string(again.Code) != p.out {
				c.Diff = firstDiff(p.out, string(again.Code))
				rep.violate(class+"/not-a-fixed-point", "compiling the output again changes it: "+c.Diff, c)
			} else {
				rep.stat("fixed-point-ok")
			}
		}
	}
}

func firstDiff(a, b string) string {
	i := 0
	for i < len(a) && i < len(b) && a[i] == b[i] {
		i++
	}
	lo := i - 30
	if lo < 0 {
		lo = 0
	}
	ha, hb := i+40, i+40
	if ha > len(a) {
		ha = len(a)
	}
	if hb > len(b) {
		hb = len(b)
	}
	return "first: ..." + a[lo:ha] + "... again: ..." + b[lo:hb] + "..."
}

func init() {
	searches["c13-syntax"] = func(r *gen.Rand, count int, workdir string, rep *Report) {
		rep.Rule = "grammar-based syntax-only programs (gen/syntax.go: ASI boundaries, regex-vs-division, contextual keywords as identifiers, cover grammars, labels, HTML-like comments, separators, escapes in identifiers, class element combinations; script and module goal, strict and sloppy) plus generated probe programs; V8 (vm.Script / vm.SourceTextModule) decides validity of inputs and outputs: every V8-accepted input must be accepted by esbuild, every error-free output must be accepted by V8, and transform(transform(x)) == transform(x). non-trivial = V8 accepted the input"
		batch := 400
		for done := 0; done < count; done += batch {
			n := batch
			if count-done < n {
				n = count - done
			}
			cases := make([]c13Replay, n)
			for i := range cases {
				gr := r.Fork()
				module := gr.Chance(1, 3)
				strict := gr.Bool()
				var src string
				if gr.Chance(1, 5) {
					g := gen.NewJSGen(gr, gen.AllFeatures(), 60+gr.Intn(120))
					src = g.Program(2+gr.Intn(5), 2+gr.Intn(3))
					module = false
				} else {
					g := gen.NewSynGen(gr, module, strict)
					src = g.Program(1+gr.Intn(6), 1+gr.Intn(3))
					mergeStats(rep, "gen:", g.Stats)
				}
				goal := "script"
				if module {
					goal = "module"
				}
				opt := pickS(gr, "default", "default", "mw", "ascii", "ms", "mi", "ms,mi,mw", "fmt=cjs", "fmt=iife", "ll20", "target=es2017", "target=es2015")
				if goal == "script" && (opt == "fmt=cjs" || opt == "fmt=iife") && !strict {
					// format conversion of sloppy scripts is outside the property (strict/sloppy differences)
					opt = "default"
				}
				cases[i] = c13Replay{Source: src, Goal: goal, OptName: opt}
			}
			c13Check(rep, workdir, "c13", cases)
			if len(rep.Samples) < 2 {
				rep.Samples = append(rep.Samples, cases[0], cases[1])
			}
		}
	}
	replays["c13-syntax"] = func(c json.RawMessage, workdir string, rep *Report) {
		var cr c13Replay
		json.Unmarshal(c, &cr)
		cr.Output, cr.Diff = "", ""
		c13Check(rep, workdir, "replay", []c13Replay{cr})
	}
}
