package main

import (
	"encoding/json"
	"fmt"
	"os"
	"path/filepath"
	"sort"
	"strings"
	"time"

	"github.com/evanw/esbuild/pkg/api"
	"github.com/evanw/esbuild/verifharness/gen"
)

// C09: after any sequence of file-system edits, ctx.Rebuild() == fresh api.Build of the current tree.

type c09Step struct {
	Edit  string            `json:"edit"`
	Write map[string]string `json:"write,omitempty"` // path -> new content
	Del   []string          `json:"delete,omitempty"`
	Dirs  []string          `json:"mkdir,omitempty"`
	Links map[string]string `json:"symlink,omitempty"` // path -> new link target (the link is replaced)
	// KeepMtime: the written file gets the SAME modification time (the current whole second) before the previous
	// build and after the edit: what a coarse-grained file system or an mtime-preserving tool produces. esbuild
	// distrusts stat data younger than 3 s and compares contents instead, so the rebuild (which must happen within
	// that time, otherwise the step is skipped) still has to see the new contents.
	KeepMtime string `json:"keep_mtime,omitempty"`
}

type c09Replay struct {
	Files   map[string]string `json:"files"`
	OptName string            `json:"opt_name"`
	Steps   []c09Step         `json:"steps"`
	Diff    string            `json:"diff,omitempty"`
}

func c09Project(r *gen.Rand) map[string]string {
	return map[string]string{
		"lib-a/index.js":                "module.exports = \"linked-lib-a\";\n",
		"lib-b/index.js":                "module.exports = \"linked-lib-b\";\n",
		"node_modules/linked.symlink":   "../lib-a",
		"src/cfg-a.js":                  "export const cfg = \"cfg-a\";\n",
		"src/cfg-b.js":                  "export const cfg = \"cfg-b\";\n",
		"src/cfg.js.symlink":            "cfg-a.js",
		"src/probe.js":                  "try { require(\"./a.js/\") } catch {}\ntry { require(\"./data.json/x\") } catch {}\n",
		"src/entry.ts":                  "const which = (globalThis as any).which || \"a\";\nimport(\"./gen/\" + which + \".js\").catch(() => {});\nimport \"./probe.js\";\nimport linked from \"linked\";\nimport { cfg } from \"./cfg.js\";\nconsole.log(linked, cfg);\nimport { a } from \"./a\";\nimport b from \"./b.js\";\nimport data from \"./data.json\";\nimport { Comp, K } from \"./comp\";\nimport pkg from \"pkg\";\nimport \"pkg/effect\";\nimport aliased from \"alias/thing\";\nimport { version } from \"helper.js\";\nconsole.log(a, b, data, Comp, new K(), pkg, aliased, version);\n",
		"node_modules/helper.js":        "export const version = 1;\n",
		"src/a.js":                      "export const a = \"a.js\";\n",
		"src/b.js":                      "export default \"b-one\";\n",
		"src/data.json":                 "{\"k\": 1, \"list\": [1, 2]}\n",
		"src/comp.tsx":                  "declare var React: any;\nexport const Comp = () => <div className=\"c\">hi<span/></div>;\nexport class K { f = 1; static s: number; g!: string }\n",
		"src/t1.ts":                     "export default \"thing-one\";\n",
		"src/t2.ts":                     "export default \"thing-two\";\n",
		"tsconfig.json":                 "{\"compilerOptions\": {\"jsx\": \"react\", \"useDefineForClassFields\": true, \"paths\": {\"alias/thing\": [\"./src/t1.ts\"]}}}\n",
		"package.json":                  "{\"name\": \"proj\"}\n",
		"node_modules/pkg/package.json": "{\"name\": \"pkg\", \"main\": \"./index.js\", \"sideEffects\": true}\n",
		"node_modules/pkg/index.js":     "module.exports = \"pkg-index\";\n",
		"node_modules/pkg/alt.js":       "module.exports = \"pkg-alt\";\n",
		"node_modules/pkg/effect.js":    "globalThis.__effect = (globalThis.__effect || 0) + 1;\n",
	}
}

func c09Edit(r *gen.Rand, cur map[string]string) c09Step {
	w := func(p, c string) c09Step { return c09Step{Write: map[string]string{p: c}} }
	for tries := 0; tries < 20; tries++ {
		switch r.Intn(22) {
		case 20, 21: // first file in a directory whose whole listing a glob import consumed / remove it again
			f := pickS(r, "src/gen/a.js", "src/gen/b.js")
			if _, ok := cur[f]; ok {
				return c09Step{Edit: "delete " + f, Del: []string{f}}
			}
			s := w(f, "export default \"gen-"+f+"\";\n")
			s.Edit = "create " + f + " in a globbed directory"
			return s
		case 18: // retarget a symlinked package directory
			t := "../lib-b"
			if cur["node_modules/linked.symlink"] == t {
				t = "../lib-a"
			}
			return c09Step{Edit: "retarget symlink node_modules/linked -> " + t, Links: map[string]string{"node_modules/linked": t}}
		case 19: // retarget a symlinked file
			t := "cfg-b.js"
			if cur["src/cfg.js.symlink"] == t {
				t = "cfg-a.js"
			}
			return c09Step{Edit: "retarget symlink src/cfg.js -> " + t, Links: map[string]string{"src/cfg.js": t}}
		case 0, 16, 17:
			f := pickS(r, "src/a.js", "src/b.js", "src/t1.ts", "node_modules/pkg/index.js", "node_modules/helper.js", "node_modules/pkg/effect.js")
			if c, ok := cur[f]; ok {
				n := strings.Replace(c, "\"", "\"x", 1)
				if n == c {
					n = strings.Replace(c, "1", "12", 1)
				}
				if n == c {
					n = c + "globalThis.__edited = (globalThis.__edited || 0) + 1;\n"
				}
				s := w(f, n)
				s.Edit = "content edit in " + f
				return s
			}
		case 1: // same-length edit
			if c, ok := cur["src/b.js"]; ok {
				n := "export default \"b-one\";\n"
				if c == n {
					n = "export default \"b-two\";\n"
				}
				s := w("src/b.js", n)
				s.Edit = "same-length edit in src/b.js"
				if r.Bool() {
					s.Edit = "same-length same-mtime edit in src/b.js"
					s.KeepMtime = "src/b.js"
				}
				return s
			}
		case 2:
			jsx := pickS(r, "react", "react-jsx", "react-jsxdev", "preserve")
			extra := pickS(r, "", ", \"jsxImportSource\": \"preact\"", ", \"jsxFactory\": \"h\"")
			udf := pickS(r, "true", "false")
			alias := pickS(r, "t1", "t2")
			s := w("tsconfig.json", fmt.Sprintf("{\"compilerOptions\": {\"jsx\": \"%s\"%s, \"useDefineForClassFields\": %s, \"paths\": {\"alias/thing\": [\"./src/%s.ts\"]}}}\n", jsx, extra, udf, alias))
			s.Edit = "tsconfig: jsx=" + jsx + extra + " useDefineForClassFields=" + udf + " paths->" + alias
			return s
		case 3:
			main := pickS(r, "./index.js", "./alt.js")
			se := pickS(r, "true", "false")
			typ := pickS(r, "", ", \"type\": \"commonjs\"")
			exp := pickS(r, "", "", ", \"exports\": {\".\": \"./alt.js\", \"./effect\": \"./effect.js\"}")
			s := w("node_modules/pkg/package.json", fmt.Sprintf("{\"name\": \"pkg\", \"main\": \"%s\", \"sideEffects\": %s%s%s}\n", main, se, typ, exp))
			s.Edit = "pkg package.json main=" + main + " sideEffects=" + se + typ + exp
			return s
		case 4: // shadowing file: ./a resolves to a.ts before a.js
			if _, ok := cur["src/a.ts"]; !ok {
				s := w("src/a.ts", "export const a: string = \"a.ts\";\n")
				s.Edit = "create src/a.ts shadowing src/a.js"
				return s
			}
			return c09Step{Edit: "delete src/a.ts", Del: []string{"src/a.ts"}}
		case 5: // nearer node_modules
			if _, ok := cur["src/node_modules/pkg/index.js"]; !ok {
				return c09Step{Edit: "create nearer src/node_modules/pkg", Write: map[string]string{"src/node_modules/pkg/package.json": "{\"name\": \"pkg\", \"main\": \"./index.js\"}\n", "src/node_modules/pkg/index.js": "module.exports = \"pkg-near\";\n", "src/node_modules/pkg/effect.js": "globalThis.__near = 1;\n"}}
			}
			return c09Step{Edit: "delete nearer src/node_modules/pkg", Del: []string{"src/node_modules/pkg/package.json", "src/node_modules/pkg/index.js", "src/node_modules/pkg/effect.js", "src/node_modules/pkg", "src/node_modules"}}
		case 6: // syntax error and repair
			if c, ok := cur["src/a.js"]; ok {
				if strings.Contains(c, "((") {
					s := w("src/a.js", "export const a = \"a.js repaired\";\n")
					s.Edit = "repair syntax error in src/a.js"
					return s
				}
				s := w("src/a.js", "export const a = ((;\n")
				s.Edit = "introduce syntax error in src/a.js"
				return s
			}
		case 7: // delete / recreate a module
			if _, ok := cur["src/t1.ts"]; ok {
				return c09Step{Edit: "delete src/t1.ts", Del: []string{"src/t1.ts"}}
			}
			s := w("src/t1.ts", "export default \"thing-one-again\";\n")
			s.Edit = "recreate src/t1.ts"
			return s
		case 8: // replace file by directory (./b.js becomes a directory with an index)
			if c, ok := cur["src/b.js"]; ok && c != "" {
				return c09Step{Edit: "replace file src/b.js by a directory", Del: []string{"src/b.js"}, Write: map[string]string{"src/b.js/index.js": "export default \"b-dir\";\n"}}
			}
			if _, ok := cur["src/b.js/index.js"]; ok {
				return c09Step{Edit: "replace directory src/b.js by a file", Del: []string{"src/b.js/index.js", "src/b.js"}, Write: map[string]string{"src/b.js": "export default \"b-file\";\n"}}
			}
		case 9:
			if c, ok := cur["src/data.json"]; ok {
				n := "{\"k\": 2, \"list\": [1, 2], \"extra\": true}\n"
				if c == n {
					n = "{\"k\": 1}\n"
				}
				s := w("src/data.json", n)
				s.Edit = "edit data.json"
				return s
			}
		case 10: // rename a module and update the importer
			if c, ok := cur["src/entry.ts"]; ok {
				if strings.Contains(c, "\"./b.js\"") {
					if b, ok := cur["src/b.js"]; ok {
						return c09Step{Edit: "rename src/b.js to src/b2.js", Del: []string{"src/b.js"}, Write: map[string]string{"src/b2.js": b, "src/entry.ts": strings.Replace(c, "\"./b.js\"", "\"./b2.js\"", 1)}}
					}
				}
			}
		case 11: // edit the entry itself: drop / add an import
			if c, ok := cur["src/entry.ts"]; ok {
				if strings.Contains(c, "import \"pkg/effect\";\n") {
					s := w("src/entry.ts", strings.Replace(c, "import \"pkg/effect\";\n", "", 1))
					s.Edit = "drop side-effect import from entry"
					return s
				}
				s := w("src/entry.ts", "import \"pkg/effect\";\n"+c)
				s.Edit = "add side-effect import to entry"
				return s
			}
		case 12:
			if c, ok := cur["src/comp.tsx"]; ok {
				s := w("src/comp.tsx", strings.Replace(c, "hi", "hi!", 1))
				s.Edit = "edit comp.tsx"
				return s
			}
		case 13: // package.json of the project: type
			s := w("package.json", pickS(r, "{\"name\": \"proj\"}\n", "{\"name\": \"proj\", \"type\": \"module\"}\n", "{\"name\": \"proj\", \"sideEffects\": false}\n"))
			s.Edit = "project package.json"
			return s
		case 14: // delete tsconfig / recreate
			if _, ok := cur["tsconfig.json"]; ok {
				return c09Step{Edit: "delete tsconfig.json", Del: []string{"tsconfig.json"}}
			}
			s := w("tsconfig.json", "{\"compilerOptions\": {\"jsx\": \"react-jsx\", \"paths\": {\"alias/thing\": [\"./src/t2.ts\"]}}}\n")
			s.Edit = "recreate tsconfig.json"
			return s
		case 15: // json imported with both default and named import, importer edited later (shared cached AST)
			if c, ok := cur["src/entry.ts"]; ok {
				if strings.Contains(c, "import { k as jsonK }") {
					s := w("src/entry.ts", strings.Replace(strings.Replace(c, "import { k as jsonK } from \"./data.json\";\n", "", 1), "console.log(jsonK);\n", "", 1))
					s.Edit = "drop named json import from entry"
					return s
				}
				s := w("src/entry.ts", "import { k as jsonK } from \"./data.json\";\n"+c+"console.log(jsonK);\n")
				s.Edit = "add named json import to entry"
				return s
			}
		}
	}
	return c09Step{Edit: "noop"}
}

func applyStep(dir string, cur map[string]string, s c09Step) {
	for _, d := range s.Del {
		p := filepath.Join(dir, d)
		os.Remove(p)
		delete(cur, d)
	}
	for p, c := range s.Write {
		full := filepath.Join(dir, p)
		os.MkdirAll(filepath.Dir(full), 0755)
		os.WriteFile(full, []byte(c), 0644)
		cur[p] = c
	}
	for p, t := range s.Links {
		full := filepath.Join(dir, p)
		os.Remove(full)
		os.MkdirAll(filepath.Dir(full), 0755)
		os.Symlink(t, full)
		cur[p+".symlink"] = t
	}
}

func summarize(res api.BuildResult, dir string) string {
	var parts []string
	for _, f := range res.OutputFiles {
		rel, _ := filepath.Rel(dir, f.Path)
		parts = append(parts, "FILE "+rel+"\n"+string(f.Contents))
	}
	sort.Strings(parts)
	msgs := []string{}
	for _, m := range res.Errors {
		loc := ""
		if m.Location != nil {
			loc = fmt.Sprintf(" @%s:%d:%d", m.Location.File, m.Location.Line, m.Location.Column)
		}
		msgs = append(msgs, "ERROR "+m.Text+loc)
	}
	for _, m := range res.Warnings {
		loc := ""
		if m.Location != nil {
			loc = fmt.Sprintf(" @%s:%d:%d", m.Location.File, m.Location.Line, m.Location.Column)
		}
		msgs = append(msgs, "WARNING "+m.Text+loc)
	}
	sort.Strings(msgs)
	return strings.Join(msgs, "\n") + "\n" + strings.Join(parts, "\n")
}

func c09Run(rep *Report, workdir string, class string, files map[string]string, optName string, steps []c09Step, gr *gen.Rand, nsteps int) {
	dir := workdir
	os.RemoveAll(dir)
	cur := map[string]string{}
	for k, v := range files {
		cur[k] = v
	}
	writeTree(dir, cur)
	os.MkdirAll(filepath.Join(dir, "src/gen"), 0755) // an EMPTY directory that a glob-style import lists
	for k, v := range cur {                          // "<path>.symlink" entries stand for symbolic links
		if strings.HasSuffix(k, ".symlink") {
			os.Remove(filepath.Join(dir, k))
			os.Symlink(v, filepath.Join(dir, strings.TrimSuffix(k, ".symlink")))
		}
	}
	mk := func() api.BuildOptions {
		o := buildOptsFromName(optName, dir, []string{"src/entry.ts"}, "out")
		return o
	}
	ctx, cerr := api.Context(mk())
	if cerr != nil {
		rep.stat("context-error")
		return
	}
	defer ctx.Dispose()
	var done []c09Step
	// watch mode: the predicates recorded by the previous build must fire after every edit that changes
	// what a fresh build returns (evaluated synchronously through the verif-tagged accessor)
	var dirtyFn func() []string
	prevFresh := ""
	var fresh3s time.Time
	fresh3sFile := ""
	check := func(label string) bool {
		if dirtyFn != nil {
			dirty := dirtyFn()
			nowFresh := summarize(api.Build(mk()), dir)
			if nowFresh != prevFresh && len(dirty) == 0 {
				rep.violate(class+"/watch-misses-change", fmt.Sprintf("after %q a fresh build differs from the previous one but no watch predicate reports a change", label),
					c09Replay{Files: files, OptName: optName, Steps: append([]c09Step{}, done...), Diff: firstDiff(prevFresh, nowFresh)})
				return false
			}
			if nowFresh != prevFresh {
				rep.stat("watch-detected-change")
			}
		}
		// file systems have coarse modification times and esbuild distrusts very fresh files: both
		// paths (rebuild and fresh) see the same tree, so no sleep is needed for correctness of the oracle
		rebuilt, df := rebuildForWatch(ctx)
		dirtyFn = df
		if !fresh3s.IsZero() && time.Now().After(fresh3s) {
			// too slow: the pinned modification time is no longer "too new to trust", so a stale rebuild would be
			// legitimate. Give the file a new time, rebuild once more and go on without a verdict for this step.
			rep.stat("same-mtime-step-too-slow")
			now := time.Now()
			os.Chtimes(fresh3sFile, now, now)
			_, dirtyFn = rebuildForWatch(ctx)
			prevFresh = summarize(api.Build(mk()), dir)
			return true
		}
		fresh := api.Build(mk())
		a, b := summarize(rebuilt, dir), summarize(fresh, dir)
		prevFresh = b
		rep.Evaluations++
		if len(fresh.Errors) > 0 {
			rep.stat("fresh-build-has-errors")
		} else {
			rep.stat("fresh-build-ok")
		}
		if a != b {
			rep.violate(class+"/rebuild-differs-from-fresh-build", fmt.Sprintf("after %q the rebuild differs from a fresh build: %s", label, firstDiff(a, b)),
				c09Replay{Files: files, OptName: optName, Steps: append([]c09Step{}, done...), Diff: firstDiff(a, b)})
			return false
		}
		return true
	}
	if !check("initial build") {
		return
	}
	runStep := func(s c09Step) bool {
		if s.KeepMtime == "" {
			applyStep(dir, cur, s)
			done = append(done, s)
			return check(s.Edit)
		}
		full := filepath.Join(dir, s.KeepMtime)
		t := time.Now().Truncate(time.Second)
		os.Chtimes(full, t, t)
		if !check("pin the modification time of " + s.KeepMtime) {
			return false
		}
		applyStep(dir, cur, s)
		os.Chtimes(full, t, t)
		done = append(done, s)
		fresh3s, fresh3sFile = t.Add(2500*time.Millisecond), full
		ok := check(s.Edit)
		fresh3s = time.Time{}
		return ok
	}
	if steps == nil {
		for i := 0; i < nsteps; i++ {
			s := c09Edit(gr, cur)
			if s.KeepMtime == "" {
				applyStep(dir, cur, s)
				done = append(done, s)
			} else if !runStep(s) {
				return
			} else {
				rep.stat("edit:same-length same-mtime")
				continue
			}
			rep.stat("edit:" + strings.SplitN(s.Edit, " ", 3)[0] + " " + strings.SplitN(s.Edit+" ", " ", 3)[1])
			if !check(s.Edit) {
				return
			}
		}
		rep.DistinctNontrivial++
	} else {
		for _, s := range steps {
			if !runStep(s) {
				return
			}
		}
	}
	_ = time.Now
}

func init() {
	searches["c09-history"] = func(r *gen.Rand, count int, workdir string, rep *Report) {
		rep.Rule = "a project (TS entry, JS/TSX/JSON modules, tsconfig with jsx/paths/useDefineForClassFields, a node_modules package with main/exports/sideEffects) is built through one long-lived context; after each of 2-7 random edits (content incl. same-length, same-length with an unchanged recent modification time, tsconfig and package.json fields, shadowing files, nearer node_modules, file<->directory, syntax error + repair, delete/recreate, rename, json named imports, retargeting a symlinked package directory and a symlinked file, creating/deleting files in an initially empty directory that a glob-style import lists) ctx.Rebuild() is compared with a fresh api.Build of the same tree: output paths+bytes and diagnostics (text+location). non-trivial = a complete history"
		for i := 0; i < count; i++ {
			gr := r.Fork()
			opt := pickS(gr, "fmt=esm", "fmt=esm,ms", "fmt=cjs,platform=node", "fmt=esm,splitting", "fmt=esm,sourcemap=external", "fmt=iife,mi", "fmt=esm,metafile")
			c09Run(rep, filepath.Join(workdir, fmt.Sprintf("c09-%d", i%8)), "c09", c09Project(gr), opt, nil, gr, 2+gr.Intn(6))
		}
	}
	replays["c09-history"] = func(c json.RawMessage, workdir string, rep *Report) {
		var cr c09Replay
		json.Unmarshal(c, &cr)
		c09Run(rep, filepath.Join(workdir, "c09-replay"), "replay", cr.Files, cr.OptName, cr.Steps, nil, 0)
	}
}
