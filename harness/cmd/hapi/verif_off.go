//go:build !verif
// +build !verif

package main

import "github.com/evanw/esbuild/pkg/api"

// Fallback when the verif-tagged hooks of /repo no longer compile (an edit changed something they call): the
// search harness is then built WITHOUT the tag and uses the public API only; the watch-predicate part of the
// c09 search is skipped (nil function).
func rebuildForWatch(ctx api.BuildContext) (api.BuildResult, func() []string) {
	return ctx.Rebuild(), nil
}
