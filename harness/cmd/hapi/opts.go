package main

import (
	"strconv"
	"strings"

	"github.com/evanw/esbuild/pkg/api"
)

// optsFromName builds TransformOptions from a comma separated flag list so that every option set
// used by a search can be re-created from its name in a replay file.
func optsFromName(name string) api.TransformOptions {
	o := api.TransformOptions{LogLevel: api.LogLevelSilent}
	for _, f := range strings.Split(name, ",") {
		switch {
		case f == "" || f == "default":
		case f == "ascii":
			o.Charset = api.CharsetASCII
		case f == "utf8":
			o.Charset = api.CharsetUTF8
		case f == "mw":
			o.MinifyWhitespace = true
		case f == "ms":
			o.MinifySyntax = true
		case f == "mi":
			o.MinifyIdentifiers = true
		case f == "kn":
			o.KeepNames = true
		case strings.HasPrefix(f, "ll"):
			n, _ := strconv.Atoi(f[2:])
			o.LineLimit = n
		case strings.HasPrefix(f, "fmt="):
			switch f[4:] {
			case "esm":
				o.Format = api.FormatESModule
			case "cjs":
				o.Format = api.FormatCommonJS
			case "iife":
				o.Format = api.FormatIIFE
			}
		case strings.HasPrefix(f, "target="):
			switch f[7:] {
			case "es2015":
				o.Target = api.ES2015
			case "es2016":
				o.Target = api.ES2016
			case "es2017":
				o.Target = api.ES2017
			case "es2018":
				o.Target = api.ES2018
			case "es2019":
				o.Target = api.ES2019
			case "es2020":
				o.Target = api.ES2020
			case "es2021":
				o.Target = api.ES2021
			case "es2022":
				o.Target = api.ES2022
			case "es2023":
				o.Target = api.ES2023
			case "es2024":
				o.Target = api.ES2024
			case "esnext":
				o.Target = api.ESNext
			}
		case strings.HasPrefix(f, "define:"):
			kv := strings.SplitN(f[7:], "=", 2)
			if o.Define == nil {
				o.Define = map[string]string{}
			}
			if len(kv) == 2 {
				o.Define[kv[0]] = kv[1]
			}
		case strings.HasPrefix(f, "sup:"):
			kv := strings.SplitN(f[4:], "=", 2)
			if o.Supported == nil {
				o.Supported = map[string]bool{}
			}
			o.Supported[kv[0]] = len(kv) > 1 && kv[1] == "true"
		case strings.HasPrefix(f, "loader="):
			switch f[7:] {
			case "js":
				o.Loader = api.LoaderJS
			case "jsx":
				o.Loader = api.LoaderJSX
			case "ts":
				o.Loader = api.LoaderTS
			case "tsx":
				o.Loader = api.LoaderTSX
			}
		case strings.HasPrefix(f, "jsx="):
			switch f[4:] {
			case "automatic":
				o.JSX = api.JSXAutomatic
			case "preserve":
				o.JSX = api.JSXPreserve
			case "transform":
				o.JSX = api.JSXTransform
			}
		case strings.HasPrefix(f, "platform="):
			switch f[9:] {
			case "node":
				o.Platform = api.PlatformNode
			case "browser":
				o.Platform = api.PlatformBrowser
			case "neutral":
				o.Platform = api.PlatformNeutral
			}
		case f == "target=es5":
			o.Target = api.ES5
		case f == "drop=console":
			o.Drop = api.DropConsole | api.DropDebugger
		case strings.HasPrefix(f, "mp="):
			o.MangleProps = f[3:]
		case strings.HasPrefix(f, "sourcemap=inline"):
			o.Sourcemap = api.SourceMapInline
		case strings.HasPrefix(f, "global="):
			o.GlobalName = f[7:]
		case strings.HasPrefix(f, "engine="):
			// engine=chrome:80
			kv := strings.SplitN(f[7:], ":", 2)
			names := map[string]api.EngineName{"chrome": api.EngineChrome, "firefox": api.EngineFirefox, "safari": api.EngineSafari, "node": api.EngineNode, "edge": api.EngineEdge, "ios": api.EngineIOS, "opera": api.EngineOpera}
			if n, ok := names[kv[0]]; ok && len(kv) == 2 {
				o.Engines = append(o.Engines, api.Engine{Name: n, Version: kv[1]})
			}
		case strings.HasPrefix(f, "tsconfig="):
			o.TsconfigRaw = strings.ReplaceAll(f[9:], ";", ",")
		case f == "ts-shake":
			o.TreeShaking = api.TreeShakingTrue
		}
	}
	return o
}

func mkSet(name string) optSet {
	o := optsFromName(name)
	kind := "cjs"
	if o.Format == api.FormatESModule {
		kind = "esm"
	}
	return optSet{Name: name, Opts: o, Kind: kind}
}
