package main

import (
	"fmt"
	"strings"

	"github.com/evanw/esbuild/verifharness/gen"
)

// generic driver for single-file program differentials
func progSearch(class string, rule string, feats func(r *gen.Rand) gen.Features, sets func(r *gen.Rand) []optSet, rejectIsViolation func(errs string) bool) searchFn {
	return func(r *gen.Rand, count int, workdir string, rep *Report) {
		rep.Rule = rule
		batch := 200
		for done := 0; done < count; done += batch {
			n := batch
			if count-done < n {
				n = count - done
			}
			cases := make([]progCase, n)
			for i := range cases {
				gr := r.Fork()
				g := gen.NewJSGen(gr, feats(gr), 60+gr.Intn(200))
				src := g.Program(3+gr.Intn(6), 2+gr.Intn(3))
				cases[i] = progCase{Source: src, Sets: sets(gr)}
				mergeStats(rep, "gen:", g.Stats)
			}
			outs := runProgDiff(rep, workdir, class, cases, func(c progCase, s optSet, errs string) {
				if rejectIsViolation == nil || rejectIsViolation(errs) {
					rep.violate(class+"/rejected-valid-input", "esbuild rejected a generated (valid) program: "+errs, progReplay{Source: c.Source, OptName: s.Name, Diff: errs})
				} else {
					rep.stat("rejected-as-documented")
				}
			})
			if done == 0 && len(outs) > 0 {
				rep.Samples = append(rep.Samples, map[string]interface{}{"source": outs[0].Case.Source, "sets": fmt.Sprint(len(outs[0].Case.Sets)), "input_trace_len": len(outs[0].Original.Trace), "input_outcome": outs[0].Original.Outcome})
			}
		}
	}
}

func pickS(r *gen.Rand, xs ...string) string { return xs[r.Intn(len(xs))] }

func init() {
	// C03: all 8 minify subsets x keep-names
	searches["c03-prog"] = progSearch("c03",
		"random terminating probe programs transformed under the 7 non-empty minify flag subsets (x keep-names, x format); traces compared in Node; non-trivial = input emitted >= 2 probe events",
		func(r *gen.Rand) gen.Features { return gen.AllFeatures() },
		func(r *gen.Rand) []optSet {
			subsets := []string{"ms", "mi", "mw", "ms,mi", "ms,mw", "mi,mw", "ms,mi,mw"}
			names := []string{"ms", "ms,mi,mw"}
			for i := 0; i < 2; i++ {
				n := subsets[r.Intn(len(subsets))]
				if r.Chance(1, 4) {
					n += ",kn"
				}
				if r.Chance(1, 3) {
					n += "," + pickS(r, "fmt=esm", "fmt=cjs", "fmt=iife")
				}
				names = append(names, n)
			}
			sets := []optSet{}
			for _, n := range names {
				sets = append(sets, mkSet(n))
			}
			return sets
		}, nil)
	replays["c03-prog"] = replays["c01-prog"]

	// C05: lowering to every target and per-feature overrides
	lowerable := []string{"optional-chain", "nullish-coalescing", "logical-assignment", "exponent-operator", "object-rest-spread", "class-field", "class-private-field", "class-private-method",
		"class-static-field", "class-static-blocks", "class-private-static-field", "class-private-brand-check", "async-await", "async-generator", "for-await", "template-literal", "destructuring", "default-argument", "rest-argument", "array-spread", "object-accessors", "arrow", "class", "generator", "for-of", "const-and-let", "new-target", "object-extensions", "optional-catch-binding"}
	searches["c05-prog"] = progSearch("c05",
		"random terminating probe programs using lowerable constructs in random positions, transformed for targets ES2015..ESNext and with per-feature supported:false overrides (x minify); traces compared in Node 20 (native) ; a transform error is accepted only for features documented as not transformable",
		func(r *gen.Rand) gen.Features {
			f := gen.AllFeatures()
			f.BigInt = false // BigInt ** is a known finding (see known-findings.jsonl); probed separately
			return f
		},
		func(r *gen.Rand) []optSet {
			names := []string{}
			targets := []string{"es2015", "es2016", "es2017", "es2018", "es2019", "es2020", "es2021", "es2022", "esnext"}
			names = append(names, "target="+targets[r.Intn(len(targets))]+pickS(r, "", "", ",fmt=iife", ",fmt=cjs"))
			names = append(names, "target="+targets[r.Intn(3)]+pickS(r, "", ",ms", ",ms,mi,mw"))
			n := "sup:" + lowerable[r.Intn(19)] + "=false"
			if r.Bool() {
				n += ",sup:" + lowerable[r.Intn(19)] + "=false"
			}
			names = append(names, n)
			names = append(names, "target="+pickS(r, "es2017", "es2018", "es2020")+",sup:"+lowerable[r.Intn(19)]+"=false"+pickS(r, "", ",ms"))
			sets := []optSet{}
			for _, n := range names {
				sets = append(sets, mkSet(n))
			}
			return sets
		},
		func(errs string) bool {
			// features esbuild documents as not transformable produce "Transforming X to the configured target environment is not supported yet"
			return !strings.Contains(errs, "is not supported yet")
		})
	replays["c05-prog"] = replays["c01-prog"]
}
