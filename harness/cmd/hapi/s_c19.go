package main

import (
	"encoding/json"
	"fmt"
	"os"
	"path/filepath"
	"regexp"
	"sort"
	"strings"

	"github.com/evanw/esbuild/pkg/api"
	"github.com/evanw/esbuild/verifharness/gen"
)

type metaImport struct {
	Path     string `json:"path"`
	Kind     string `json:"kind"`
	External bool   `json:"external"`
}
type metaOutput struct {
	Bytes      int          `json:"bytes"`
	EntryPoint string       `json:"entryPoint"`
	Imports    []metaImport `json:"imports"`
	Exports    []string     `json:"exports"`
	Inputs     map[string]struct {
		BytesInOutput int `json:"bytesInOutput"`
	} `json:"inputs"`
}
type metafile struct {
	Inputs map[string]struct {
		Bytes   int          `json:"bytes"`
		Imports []metaImport `json:"imports"`
	} `json:"inputs"`
	Outputs map[string]metaOutput `json:"outputs"`
}

var reExportList = regexp.MustCompile(`(?s)export \{(.*?)\};`)
var rePathComment = regexp.MustCompile(`(?m)^\s*// ([^\n]+)$`)

// checkMetafile compares a metafile with the build result it describes. Returns violations as (class, what).
func checkMetafile(srcDir string, files map[string]string, res api.BuildResult, minified bool, format string) [][2]string {
	var out [][2]string
	bad := func(class, what string) { out = append(out, [2]string{class, what}) }
	var m metafile
	if err := json.Unmarshal([]byte(res.Metafile), &m); err != nil {
		bad("metafile-not-json", err.Error())
		return out
	}
	emitted := map[string][]byte{}
	for _, f := range res.OutputFiles {
		rel, _ := filepath.Rel(srcDir, f.Path)
		emitted[filepath.ToSlash(rel)] = f.Contents
	}
	// outputs: exact set of emitted files with exact byte lengths
	for p, o := range m.Outputs {
		c, ok := emitted[p]
		if !ok {
			bad("output-not-emitted", fmt.Sprintf("metafile lists output %q that was not emitted", p))
			continue
		}
		if o.Bytes != len(c) {
			bad("output-bytes", fmt.Sprintf("output %q: metafile bytes=%d, real length=%d", p, o.Bytes, len(c)))
		}
		sum := 0
		for in, v := range o.Inputs {
			sum += v.BytesInOutput
			if _, ok := m.Inputs[in]; !ok {
				bad("output-input-unknown", fmt.Sprintf("output %q attributes bytes to %q which is not in inputs", p, in))
			}
			if v.BytesInOutput < 0 {
				bad("negative-bytes", in)
			}
		}
		if sum > o.Bytes {
			bad("inputs-exceed-output", fmt.Sprintf("output %q: sum of bytesInOutput %d > bytes %d", p, sum, o.Bytes))
		}
		for _, im := range o.Imports {
			if im.External {
				continue
			}
			if _, ok := emitted[im.Path]; !ok {
				bad("import-not-emitted", fmt.Sprintf("output %q imports %q which was not emitted", p, im.Path))
			}
			// the import must really be in the code
			base := filepath.Base(im.Path)
			if !strings.Contains(string(c), base) {
				bad("import-not-in-code", fmt.Sprintf("output %q: metafile import %q does not occur in the code", p, im.Path))
			}
		}
		if strings.HasSuffix(p, ".js") && !minified {
			// inputs with a non-zero contribution are exactly those announced by a `// path` comment
			announced := map[string]bool{}
			for _, mm := range rePathComment.FindAllStringSubmatch(string(c), -1) {
				announced[strings.TrimSpace(mm[1])] = true
			}
			for in, v := range o.Inputs {
				if v.BytesInOutput > 0 && !announced[in] {
					bad("nonzero-but-absent", fmt.Sprintf("output %q: input %q has bytesInOutput=%d but no code of it is in the file", p, in, v.BytesInOutput))
				}
				if v.BytesInOutput == 0 && announced[in] {
					bad("zero-but-present", fmt.Sprintf("output %q: input %q has bytesInOutput=0 but its code is in the file", p, in))
				}
			}
			for a := range announced {
				if _, isInput := m.Inputs[a]; isInput {
					if _, ok := o.Inputs[a]; !ok {
						bad("present-but-unlisted", fmt.Sprintf("output %q contains code of %q which the metafile does not attribute", p, a))
					}
				}
			}
		}
		if format == "esm" && strings.HasSuffix(p, ".js") && !minified {
			// exact re-derivation of bytesInOutput: the code of an input is the text between its
			// "// path" comment line and the blank line that precedes the next comment (or the
			// chunk's export trailer); each line counts with its newline.
			lines := strings.Split(string(c), "\n")
			derived := map[string]int{}
			cur := ""
			isComment := func(l string) (string, bool) {
				if strings.HasPrefix(l, "// ") {
					if _, ok := m.Inputs[l[3:]]; ok {
						return l[3:], true
					}
				}
				return "", false
			}
			for li := 0; li < len(lines); li++ {
				l := lines[li]
				if name, ok := isComment(l); ok {
					cur = name
					continue
				}
				if li == len(lines)-1 && l == "" {
					break // text after the final newline
				}
				if strings.HasPrefix(l, "export {") || strings.HasPrefix(l, "//# sourceMappingURL=") {
					cur = ""
				}
				if l == "" && li+1 < len(lines) {
					if _, ok := isComment(lines[li+1]); ok {
						continue
					}
					if strings.HasPrefix(lines[li+1], "export {") || lines[li+1] == "" && li+2 == len(lines) {
						continue
					}
				}
				if cur != "" {
					derived[cur] += len(l) + 1
				}
			}
			for in, v := range o.Inputs {
				if derived[in] != v.BytesInOutput && !strings.Contains(string(c), "`") {
					bad("bytes-in-output-mismatch", fmt.Sprintf("output %q: input %q bytesInOutput=%d but its code occupies %d bytes", p, in, v.BytesInOutput, derived[in]))
				}
			}
			// export names
			real := map[string]bool{}
			for _, mm := range reExportList.FindAllStringSubmatch(string(c), -1) {
				for _, item := range strings.Split(mm[1], ",") {
					item = strings.TrimSpace(item)
					if item == "" {
						continue
					}
					if i := strings.Index(item, " as "); i >= 0 {
						item = item[i+4:]
					}
					real[item] = true
				}
			}
			if strings.Contains(string(c), "export default ") {
				real["default"] = true
			}
			listed := map[string]bool{}
			for _, e := range o.Exports {
				listed[e] = true
			}
			if !strings.Contains(string(c), "export *") {
				for e := range real {
					if !listed[e] {
						bad("export-unlisted", fmt.Sprintf("output %q exports %q which the metafile does not list", p, e))
					}
				}
				for e := range listed {
					if !real[e] {
						bad("export-not-real", fmt.Sprintf("output %q: metafile lists export %q which the code does not export", p, e))
					}
				}
			}
		}
	}
	for p := range emitted {
		if _, ok := m.Outputs[p]; !ok {
			bad("emitted-not-listed", fmt.Sprintf("emitted file %q is missing from metafile outputs", p))
		}
	}
	// inputs: sizes on disk, and every bundled source file is listed
	for in, v := range m.Inputs {
		src, ok := files[in]
		if !ok {
			if strings.HasPrefix(in, "<") || strings.Contains(in, ":") {
				continue
			}
			bad("input-unknown", fmt.Sprintf("metafile input %q is not a file of the project", in))
			continue
		}
		if v.Bytes != len(src) {
			bad("input-bytes", fmt.Sprintf("input %q: metafile bytes=%d, file size=%d", in, v.Bytes, len(src)))
		}
		for _, im := range v.Imports {
			if im.External {
				continue
			}
			if _, ok := files[im.Path]; !ok {
				bad("input-import-unknown", fmt.Sprintf("input %q resolved import %q is not a project file", in, im.Path))
			}
			if _, ok := m.Inputs[im.Path]; !ok {
				bad("input-import-unlisted", fmt.Sprintf("input %q imports %q which is not listed as an input", in, im.Path))
			}
		}
	}
	return out
}

func c19Variant(r *gen.Rand, entries int) string {
	v := pickS(r, "fmt=esm", "fmt=esm", "fmt=cjs", "fmt=iife")
	if entries > 1 || r.Chance(1, 3) {
		v = "fmt=esm,splitting"
	}
	if r.Chance(1, 3) {
		v += pickS(r, ",mw", ",ms,mi,mw", ",mi")
	}
	if r.Chance(1, 3) {
		v += ",entrynames=[dir]/[name]-[hash],chunknames=chunks/[name]-[hash]"
	}
	if r.Chance(1, 4) {
		v += ",sourcemap=" + pickS(r, "linked", "external", "inline")
	}
	if r.Chance(1, 5) {
		v += ",publicpath=https://cdn.example/x/"
	}
	return v + ",metafile"
}

func init() {
	searches["c19-meta"] = func(r *gen.Rand, count int, workdir string, rep *Report) {
		rep.Rule = "random module graphs (1-3 entry points, splitting, assets via file/text loaders, minify, hashed names, public path, source maps) built with Metafile:true; the metafile is parsed and compared with OutputFiles (exact path set, byte lengths), with the emitted code (imports present, export names, which inputs have code in which output) and with input sizes on disk. non-trivial = graph has >= 2 inputs in some output"
		for i := 0; i < count; i++ {
			gr := r.Fork()
			ents := 1 + gr.Intn(3)
			o := gen.GraphOpts{Modules: ents + gr.Intn(6), Entries: ents, AllowCJS: gr.Chance(1, 3), AllowDyn: gr.Chance(1, 2), AllowCycle: gr.Bool(), AllowStar: gr.Bool(), SideEffectFreeDecls: true, AvoidInPlaceOrder: true, DualPkg: gr.Chance(1, 4)}
			g := gen.GenGraph(gr, o)
			mergeStats(rep, "gen:", g.Stats)
			v := c19Variant(gr, ents)
			dir := filepath.Join(workdir, fmt.Sprintf("c19-%d", i))
			os.RemoveAll(dir)
			if gr.Chance(1, 3) {
				g.Files["asset.txt"] = "hello asset é\n"
				g.Files["m0.js"] = "import assetText from \"./asset.txt\";\np(\"asset\", assetText);\n" + g.Files["m0.js"]
				v += ",loader:.txt=" + pickS(gr, "text", "file", "base64", "dataurl")
			}
			writeTree(dir, g.Files)
			bo := buildOptsFromName(v, dir, g.Entries, "out")
			res, pan := buildSafe(bo)
			rep.Evaluations++
			if pan != "" {
				rep.violate("c19/panic", pan, graphReplay{Files: g.Files, Entries: g.Entries, OptName: v})
				os.RemoveAll(dir)
				continue
			}
			if len(res.Errors) > 0 {
				rep.stat("build-error")
				rep.violate("c19/build-error", msgsText(res.Errors), graphReplay{Files: g.Files, Entries: g.Entries, OptName: v})
				os.RemoveAll(dir)
				continue
			}
			minified := strings.Contains(v, ",mw") || strings.Contains(v, ",ms,mi,mw")
			format := "other"
			if strings.Contains(v, "fmt=esm") {
				format = "esm"
			}
			if len(g.Modules) >= 2 {
				rep.DistinctNontrivial++
			}
			rep.stat("variant:" + strings.Split(v, ",")[0])
			for _, bad := range checkMetafile(dir, g.Files, res, minified, format) {
				rep.violate("c19/"+bad[0], bad[1], graphReplay{Files: g.Files, Entries: g.Entries, OptName: v, Diff: bad[1]})
			}
			if len(rep.Samples) < 2 {
				keys := []string{}
				for _, f := range res.OutputFiles {
					rel, _ := filepath.Rel(dir, f.Path)
					keys = append(keys, fmt.Sprintf("%s(%d)", rel, len(f.Contents)))
				}
				sort.Strings(keys)
				rep.Samples = append(rep.Samples, map[string]interface{}{"variant": v, "modules": len(g.Modules), "outputs": keys})
			}
			os.RemoveAll(dir)
		}
	}
	// Entry points converted WITHOUT bundling (no --format, or esm / cjs): the `exports` the metafile lists for an
	// output must be the names the emitted file really exports (parsed with esbuild's own parser by hscan).
	searches["c19-nobundle"] = func(r *gen.Rand, count int, workdir string, rep *Report) {
		rep.Rule = "entry points of every classification (ES module with named/default exports, script with exports.x, .cjs file, file under a package.json with type commonjs / module, script with a top-level return, JSON and text files) converted without bundling under no --format / esm / cjs with Metafile:true; for every output the metafile's `exports` must equal the export names of the emitted text (esbuild's parser as AST provider), `bytes` its length. non-trivial = every case"
		for i := 0; i < count; i++ {
			gr := r.Fork()
			files := map[string]string{}
			entries := []string{}
			add := func(name, src string) { files[name] = src; entries = append(entries, name) }
			n := 2 + gr.Intn(4)
			for k := 0; k < n; k++ {
				switch gr.Intn(9) {
				case 0:
					add(fmt.Sprintf("esm%d.js", k), fmt.Sprintf("export const a%d = 1;\nexport function b%d() {}\nexport default 5;\n", k, k))
				case 1:
					add(fmt.Sprintf("named%d.mjs", k), fmt.Sprintf("const x = 1, y = 2;\nexport { x as x%d, y };\n", k))
				case 2:
					add(fmt.Sprintf("plain%d.js", k), "exports.x = 1;\nmodule.exports.y = 2;\n")
				case 3:
					add(fmt.Sprintf("legacy%d.cjs", k), "exports.x = 1;\nconsole.log(typeof module);\n")
				case 4:
					files[fmt.Sprintf("pkgc%d/package.json", k)] = "{\"type\": \"commonjs\"}\n"
					add(fmt.Sprintf("pkgc%d/tool.js", k), "console.log(\"tool\");\n")
				case 5:
					files[fmt.Sprintf("pkgm%d/package.json", k)] = "{\"type\": \"module\"}\n"
					add(fmt.Sprintf("pkgm%d/mod.js", k), "export let live = 1;\nconsole.log(import.meta.url);\n")
				case 6:
					add(fmt.Sprintf("guard%d.js", k), "if (typeof window === \"undefined\") return;\nconsole.log(1);\n")
				case 7:
					add(fmt.Sprintf("data%d.json", k), "{\"a\": 1, \"b-c\": [2]}\n")
				default:
					add(fmt.Sprintf("side%d.js", k), "console.log(\"no exports, no imports\");\n")
				}
			}
			v := "nobundle,metafile" + pickS(gr, "", "", ",fmt=esm", ",fmt=cjs") + pickS(gr, "", ",ms", ",mw")
			dir := filepath.Join(workdir, fmt.Sprintf("c19nb-%d", i%4))
			os.RemoveAll(dir)
			writeTree(dir, files)
			res, pan := buildSafe(buildOptsFromName(v, dir, entries, "out"))
			rep.Evaluations++
			rp := graphReplay{Files: files, Entries: entries, OptName: v}
			if pan != "" {
				rep.violate("c19nb/panic", pan, rp)
				continue
			}
			if len(res.Errors) > 0 {
				rep.stat("build-error")
				continue
			}
			rep.DistinctNontrivial++
			rep.stat("variant:" + v)
			for _, bad := range checkNoBundleExports(dir, res) {
				rp.Diff = bad[1]
				rep.violate("c19nb/"+bad[0], bad[1], rp)
			}
			os.RemoveAll(dir)
		}
	}
	replays["c19-nobundle"] = func(c json.RawMessage, workdir string, rep *Report) {
		var gr graphReplay
		json.Unmarshal(c, &gr)
		dir := filepath.Join(workdir, "c19nb-replay")
		os.RemoveAll(dir)
		writeTree(dir, gr.Files)
		res, pan := buildSafe(buildOptsFromName(gr.OptName, dir, gr.Entries, "out"))
		rep.Evaluations = 1
		if pan != "" || len(res.Errors) > 0 {
			return
		}
		for _, bad := range checkNoBundleExports(dir, res) {
			rep.violate("replay/"+bad[0], bad[1], nil)
		}
	}
	replays["c19-meta"] = func(c json.RawMessage, workdir string, rep *Report) {
		var gr graphReplay
		json.Unmarshal(c, &gr)
		dir := filepath.Join(workdir, "c19-replay")
		os.RemoveAll(dir)
		writeTree(dir, gr.Files)
		res, pan := buildSafe(buildOptsFromName(gr.OptName, dir, gr.Entries, "out"))
		if pan != "" {
			rep.violate("replay/panic", pan, nil)
			return
		}
		for _, bad := range checkMetafile(dir, gr.Files, res, strings.Contains(gr.OptName, ",mw"), map[bool]string{true: "esm", false: "other"}[strings.Contains(gr.OptName, "fmt=esm")]) {
			rep.violate("replay/"+bad[0], bad[1], nil)
		}
		rep.Evaluations = 1
	}
}

// checkNoBundleExports compares, for every JavaScript output of a build without bundling, the metafile's `exports`
// and `bytes` with the emitted text.
func checkNoBundleExports(dir string, res api.BuildResult) [][2]string {
	out := [][2]string{}
	var m struct {
		Outputs map[string]struct {
			Bytes   int      `json:"bytes"`
			Exports []string `json:"exports"`
		} `json:"outputs"`
	}
	if err := json.Unmarshal([]byte(res.Metafile), &m); err != nil {
		return [][2]string{{"metafile-not-json", err.Error()}}
	}
	reqs := []scanReq{}
	paths := []string{}
	for _, f := range res.OutputFiles {
		rel, _ := filepath.Rel(dir, f.Path)
		rel = filepath.ToSlash(rel)
		o, ok := m.Outputs[rel]
		if !ok {
			out = append(out, [2]string{"emitted-not-listed", fmt.Sprintf("emitted file %q is missing from metafile outputs", rel)})
			continue
		}
		if o.Bytes != len(f.Contents) {
			out = append(out, [2]string{"bytes-mismatch", fmt.Sprintf("output %q: metafile bytes=%d, file has %d", rel, o.Bytes, len(f.Contents))})
		}
		if strings.HasSuffix(rel, ".js") {
			reqs = append(reqs, scanReq{ID: len(paths), Code: string(f.Contents), Target: "esnext"})
			paths = append(paths, rel)
		}
	}
	resps, err := runScan(reqs)
	if err != nil {
		return append(out, [2]string{"scan-error", err.Error()})
	}
	for i, rel := range paths {
		rs, ok := resps[i]
		if !ok || rs.Error != "" || rs.ExportStar {
			continue
		}
		listed := append([]string{}, m.Outputs[rel].Exports...)
		sort.Strings(listed)
		real := append([]string{}, rs.Exports...)
		sort.Strings(real)
		if strings.Join(listed, ",") != strings.Join(real, ",") {
			out = append(out, [2]string{"exports-differ", fmt.Sprintf("output %q: metafile exports %v, the emitted code exports %v", rel, listed, real)})
		}
	}
	return out
}
