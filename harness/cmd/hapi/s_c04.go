package main

import (
	"encoding/json"
	"fmt"
	"os"
	"path/filepath"

	"github.com/evanw/esbuild/verifharness/gen"
)

// c04-shake: tree shaking must be unobservable. Module graphs from gen/shake.go (unused declarations that hide
// probe calls in every syntactic position the purity analysis inspects, next to really pure ones) are loaded
// natively by Node and as bundles with tree shaking on (default / =true) and off; traces must agree.

func c04Variants(r *gen.Rand, o gen.ShakeOpts) ([]string, bool) {
	if o.Accessor {
		// Node 20 has no `accessor`: the reference is the lowered bundle WITHOUT tree shaking
		tgt := pickS(r, "target=es2022", "target=es2020", "target=es2017")
		return []string{"fmt=esm,shake=false," + tgt, "fmt=esm," + tgt, "fmt=esm,ms," + tgt, "fmt=cjs,platform=node,ms,mi,mw," + tgt}, true
	}
	vs := []string{"fmt=esm,shake=false", "fmt=esm", "fmt=esm,ms"}
	vs = append(vs, pickS(r, "fmt=cjs,platform=node", "fmt=iife,global=G,ms,mi,mw", "fmt=esm,ms,mi,mw", "fmt=esm,shake=true,mi", "fmt=esm,target=es2017", "fmt=esm,target=es2015,ms", "fmt=cjs,platform=node,shake=false,ms"))
	return vs, false
}

func init() {
	searches["c04-shake"] = func(r *gen.Rand, count int, workdir string, rep *Report) {
		rep.Rule = "ES module graphs (1-4 modules; bare / named-used / named-unused / namespace imports) whose modules are built from ~110 statement templates: unused declarations hiding a probe call in getters, computed keys, spreads, template holes, valueOf/toString/toPrimitive coercions (unary, binary, builtin calls), class static blocks/fields/computed members/heritage, destructuring defaults and keys, tagged templates, in/instanceof/for-in on proxies, unbound global getters, unused exports, plus really pure unused declarations, empty/identity functions that are reassigned by shaken code, and (lowered) static accessors. Loaded natively by Node 20 and as bundles with tree shaking default/true/false (x format x minify x target); traces compared. non-trivial = native trace has >= 3 events"
		batch := 50
		for done := 0; done < count; done += batch {
			n := batch
			if count-done < n {
				n = count - done
			}
			cases := []c02Case{}
			for i := 0; i < n; i++ {
				gr := r.Fork()
				o := gen.ShakeOpts{Modules: 1 + gr.Intn(4), Accessor: gr.Chance(1, 6), EmptyFunc: gr.Chance(1, 2)}
				g := gen.GenShakeGraph(gr, o)
				mergeStats(rep, "gen:", g.Stats)
				vs, noNative := c04Variants(gr, o)
				cases = append(cases, c02Case{g: g, variants: vs, noNative: noNative})
			}
			runGraphDiff(rep, filepath.Join(workdir, "c04"), "c04", cases, false)
		}
	}
	replays["c04-shake"] = func(c json.RawMessage, workdir string, rep *Report) {
		var gr graphReplay
		json.Unmarshal(c, &gr)
		g := &gen.Graph{Files: gr.Files, Entries: gr.Entries}
		vs := []string{"fmt=esm,shake=false", gr.OptName}
		noNative := false
		for _, f := range gr.Files {
			if containsAccessor(f) {
				noNative = true
			}
		}
		if noNative {
			vs = []string{gr.OptName + ",shake=false", gr.OptName}
		}
		os.MkdirAll(workdir, 0755)
		runGraphDiff(rep, filepath.Join(workdir, "c04-replay"), "replay", []c02Case{{g: g, variants: vs, noNative: noNative}}, false)
		_ = fmt.Sprint
	}
}

func containsAccessor(s string) bool {
	for i := 0; i+9 <= len(s); i++ {
		if s[i:i+9] == "accessor " {
			return true
		}
	}
	return false
}
