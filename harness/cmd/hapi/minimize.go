package main

import (
	"strings"
)

// minimizeProg: line-based delta debugging of a failing program. A candidate "fails" when
// runProgDiff reports any violation whose class has the same kind (trace-diff / invalid-output / rejected / panic).
func minimizeProg(src string, setName string, kind string, workdir string) string {
	lines := strings.Split(src, "\n")
	prefix := ""
	if len(lines) > 0 && strings.HasPrefix(lines[0], "\"use strict\"") {
		prefix = lines[0] + "\n"
		lines = lines[1:]
	}
	fails := func(cands [][]string) int {
		cases := make([]progCase, len(cands))
		for i, c := range cands {
			cases[i] = progCase{Source: prefix + strings.Join(c, "\n"), Sets: []optSet{mkSet(setName)}}
		}
		// evaluate each candidate separately so that we know which one failed
		for lo := 0; lo < len(cases); lo += 64 {
			hi := lo + 64
			if hi > len(cases) {
				hi = len(cases)
			}
			reps := make([]*Report, hi-lo)
			// run as one node batch but attribute by re-running runProgDiff per candidate report:
			// simpler: one report per candidate, sequential transform, shared node batch is not possible
			// with the current API, so run them in parallel goroutines.
			done := make(chan int, hi-lo)
			for i := lo; i < hi; i++ {
				reps[i-lo] = &Report{Distribution: map[string]int{}}
				go func(i int) {
					rejected := false
					runProgDiff(reps[i-lo], workdir+"/min"+itoa(i), "m", cases[i:i+1], func(c progCase, s optSet, errs string) { rejected = true })
					if rejected && kind != "rejected-valid-input" {
						reps[i-lo].Violations = nil
					}
					done <- i
				}(i)
			}
			for i := lo; i < hi; i++ {
				<-done
			}
			for i := lo; i < hi; i++ {
				for _, v := range reps[i-lo].Violations {
					if strings.Contains(v.Class, kind) {
						return i
					}
				}
			}
		}
		return -1
	}
	n := 2
	rounds := 0
	for len(lines) >= 2 && rounds < 14 {
		rounds++
		chunk := (len(lines) + n - 1) / n
		cands := [][]string{}
		for i := 0; i < len(lines) && len(cands) < 24; i += chunk {
			if i == 0 && strings.HasPrefix(lines[0], "\"use strict\"") {
				if chunk == 1 {
					continue
				}
			}
			j := i + chunk
			if j > len(lines) {
				j = len(lines)
			}
			c := append(append([]string{}, lines[:i]...), lines[j:]...)
			cands = append(cands, c)
		}
		k := fails(cands)
		if k >= 0 {
			lines = cands[k]
			if n > 2 {
				n--
			}
		} else {
			if chunk == 1 {
				break
			}
			n *= 2
			if n > len(lines) {
				n = len(lines)
			}
		}
	}
	return prefix + strings.Join(lines, "\n")
}

func itoa(i int) string {
	if i == 0 {
		return "0"
	}
	s := ""
	for i > 0 {
		s = string(rune('0'+i%10)) + s
		i /= 10
	}
	return s
}
