package main

import (
	"encoding/json"
	"fmt"
	"os"
	"os/exec"
	"path/filepath"
	"sort"
	"strings"
	"sync"
	"sync/atomic"
	"time"

	"github.com/evanw/esbuild/pkg/api"
	"github.com/evanw/esbuild/verifharness/gen"
)

// c20-plugins: within each build, start callbacks finish before any resolve or load callback runs, each module
// identity is loaded at most once, end callbacks run after the outputs are written, each exactly once per build
// and all of them unless an earlier one fails; concurrent Rebuild/Cancel/Dispose callers get complete results;
// Cancel and Dispose return only after the running build has ended.
//
// c20-race: the same scenarios (and the context hammering of the correspondence kernel) in a binary built
// with the Go race detector; any "DATA RACE" report is a violation.

type c20Replay struct {
	Scenario string `json:"scenario"`
	Seed     uint64 `json:"seed"`
	Diff     string `json:"diff,omitempty"`
}

type c20Event struct {
	at   int64
	what string
}

func c20PluginScenario(r *gen.Rand, dir string) (string, string) {
	os.RemoveAll(dir)
	os.MkdirAll(filepath.Join(dir, "src"), 0755)
	nMods := 2 + r.Intn(5)
	files := map[string]string{}
	for i := 0; i < nMods; i++ {
		var sb strings.Builder
		for j := i + 1; j < nMods; j++ {
			if r.Chance(2, 3) {
				fmt.Fprintf(&sb, "import \"./m%d.js\";\n", j)
			}
		}
		if i > 0 && r.Chance(1, 3) {
			fmt.Fprintf(&sb, "import \"./m%d.js\";\n", r.Intn(i)) // cycle / repeated import
		}
		fmt.Fprintf(&sb, "console.log(%d);\n", i)
		files[fmt.Sprintf("src/m%d.js", i)] = sb.String()
	}
	files["src/shim.js"] = "export let shimmed = 1;\n"
	files["src/shim2.js"] = "import \"./m1.js\";\nexport let shimmed2 = 2;\n"
	writeTree(dir, files)
	var clock int64
	var mu sync.Mutex
	events := []c20Event{}
	log := func(format string, a ...interface{}) {
		t := atomic.AddInt64(&clock, 1)
		mu.Lock()
		events = append(events, c20Event{t, fmt.Sprintf(format, a...)})
		mu.Unlock()
	}
	nStart := 1 + r.Intn(3)
	nEnd := 1 + r.Intn(3)
	failEnd := -1
	if r.Chance(1, 4) {
		failEnd = r.Intn(nEnd)
	}
	startDelay := make([]int, nStart)
	for i := range startDelay {
		startDelay[i] = r.Intn(4000)
	}
	write := r.Bool()
	opts := api.BuildOptions{AbsWorkingDir: dir, EntryPoints: []string{"src/m0.js"}, Bundle: true, Outdir: "out", Write: write, LogLevel: api.LogLevelSilent, Format: api.FormatESModule}
	if r.Chance(2, 3) {
		opts.Inject = []string{"src/shim.js"}
		if r.Bool() {
			opts.Inject = append(opts.Inject, "src/shim2.js")
		}
	}
	if nMods > 2 && r.Bool() {
		opts.EntryPoints = append(opts.EntryPoints, "src/m1.js")
	}
	var buildNo int64
	plugins := []api.Plugin{}
	nPlugins := 1 + r.Intn(2)
	for pi := 0; pi < nPlugins; pi++ {
		pi := pi
		plugins = append(plugins, api.Plugin{Name: fmt.Sprintf("p%d", pi), Setup: func(b api.PluginBuild) {
			for i := 0; i < nStart; i++ {
				i := i
				b.OnStart(func() (api.OnStartResult, error) {
					k := atomic.LoadInt64(&buildNo)
					log("start-begin b%d p%d.%d", k, pi, i)
					time.Sleep(time.Duration(startDelay[i]) * time.Microsecond)
					log("start-end b%d p%d.%d", k, pi, i)
					return api.OnStartResult{}, nil
				})
			}
			b.OnResolve(api.OnResolveOptions{Filter: `.*`}, func(a api.OnResolveArgs) (api.OnResolveResult, error) {
				log("resolve b%d %s", atomic.LoadInt64(&buildNo), a.Path)
				return api.OnResolveResult{}, nil
			})
			if pi == 0 {
				b.OnLoad(api.OnLoadOptions{Filter: `.*`}, func(a api.OnLoadArgs) (api.OnLoadResult, error) {
					rel, _ := filepath.Rel(dir, a.Path)
					log("load b%d %s", atomic.LoadInt64(&buildNo), filepath.ToSlash(rel))
					time.Sleep(time.Duration(200) * time.Microsecond)
					return api.OnLoadResult{}, nil
				})
			}
			for i := 0; i < nEnd; i++ {
				i := i
				b.OnEnd(func(res *api.BuildResult) (api.OnEndResult, error) {
					missing := 0
					if write && len(res.Errors) == 0 {
						for _, f := range res.OutputFiles {
							if _, err := os.Stat(f.Path); err != nil {
								missing++
							}
						}
					}
					log("end b%d p%d.%d missing=%d", atomic.LoadInt64(&buildNo), pi, i, missing)
					if pi == 0 && i == failEnd {
						return api.OnEndResult{Errors: []api.Message{{Text: "end failed"}}}, nil
					}
					return api.OnEndResult{}, nil
				})
			}
		}})
	}
	opts.Plugins = plugins
	useCtx := r.Bool()
	nBuilds := 1
	if useCtx {
		ctx, err := api.Context(opts)
		if err != nil {
			return "", "context error: " + err.Error()
		}
		nBuilds = 1 + r.Intn(3)
		for k := 0; k < nBuilds; k++ {
			// sequential builds (start callbacks run in parallel, so the build number is set from here)
			atomic.AddInt64(&buildNo, 1)
			ctx.Rebuild()
		}
		ctx.Dispose()
	} else {
		atomic.AddInt64(&buildNo, 1)
		api.Build(opts)
	}
	// ---- check the log
	sort.Slice(events, func(i, j int) bool { return events[i].at < events[j].at })
	desc := fmt.Sprintf("mods=%d starts=%d ends=%d failEnd=%d plugins=%d inject=%v ctx=%v write=%v", nMods, nStart, nEnd, failEnd, nPlugins, opts.Inject, useCtx, write)
	type bstate struct {
		startsBegun, startsEnded int
		loads                    map[string]int
		ends                     map[string]int
		endOrder                 []string
		sawResolveOrLoad         bool
	}
	states := map[string]*bstate{}
	get := func(b string) *bstate {
		if states[b] == nil {
			states[b] = &bstate{loads: map[string]int{}, ends: map[string]int{}}
		}
		return states[b]
	}
	for _, ev := range events {
		f := strings.Fields(ev.what)
		b := f[1]
		st := get(b)
		switch f[0] {
		case "start-begin":
			st.startsBegun++
			if st.sawResolveOrLoad {
				return desc, fmt.Sprintf("build %s: a start callback began after a resolve/load callback had run", b)
			}
		case "start-end":
			st.startsEnded++
		case "resolve", "load":
			st.sawResolveOrLoad = true
			if st.startsEnded < nStart*nPlugins {
				return desc, fmt.Sprintf("build %s: %s callback for %s ran while only %d of %d start callbacks had finished", b, f[0], f[2], st.startsEnded, nStart*nPlugins)
			}
			if f[0] == "load" {
				st.loads[f[2]]++
				if st.loads[f[2]] > 1 {
					return desc, fmt.Sprintf("build %s: module %s was loaded %d times", b, f[2], st.loads[f[2]])
				}
			}
		case "end":
			st.ends[f[2]]++
			st.endOrder = append(st.endOrder, f[2])
			if st.ends[f[2]] > 1 {
				return desc, fmt.Sprintf("build %s: end callback %s ran twice", b, f[2])
			}
			if f[3] != "missing=0" {
				return desc, fmt.Sprintf("build %s: end callback %s ran before the output files were written (%s)", b, f[2], f[3])
			}
		}
	}
	if int(atomic.LoadInt64(&buildNo)) == 0 {
		return desc, "no build ran"
	}
	for b, st := range states {
		want := nEnd * nPlugins
		if failEnd >= 0 {
			want = failEnd + 1 // plugin 0 registers first: its failing callback is the last one to run
		}
		if len(st.endOrder) != want {
			return desc, fmt.Sprintf("build %s: %d end callbacks ran, expected %d (%v)", b, len(st.endOrder), want, st.endOrder)
		}
	}
	return desc, ""
}

// c20WatchDispose: Dispose (or Cancel, or a joining Rebuild) arrives while a rebuild that the WATCHER started is in
// the middle of its load callbacks; every call must return, Dispose only after that build's end callback ran.
func c20WatchDispose(r *gen.Rand, dir string) (string, string) {
	os.RemoveAll(dir)
	writeTree(dir, map[string]string{"src/a.js": "import \"./b.js\";\nconsole.log(1);\n", "src/b.js": "console.log(2);\n"})
	var builds, ends int64
	entered := make(chan struct{}, 16)
	release := make(chan struct{})
	var holdFrom int64 = 2 // build 1 is the initial build of Watch()
	plugin := api.Plugin{Name: "hold", Setup: func(b api.PluginBuild) {
		b.OnStart(func() (api.OnStartResult, error) { atomic.AddInt64(&builds, 1); return api.OnStartResult{}, nil })
		b.OnLoad(api.OnLoadOptions{Filter: `b\.js$`}, func(a api.OnLoadArgs) (api.OnLoadResult, error) {
			if atomic.LoadInt64(&builds) >= holdFrom {
				entered <- struct{}{}
				<-release
			}
			return api.OnLoadResult{}, nil
		})
		b.OnEnd(func(res *api.BuildResult) (api.OnEndResult, error) { atomic.AddInt64(&ends, 1); return api.OnEndResult{}, nil })
	}}
	ctx, err := api.Context(api.BuildOptions{AbsWorkingDir: dir, EntryPoints: []string{"src/a.js"}, Bundle: true, Outdir: "out", Write: r.Bool(), LogLevel: api.LogLevelSilent, Plugins: []api.Plugin{plugin}})
	if err != nil {
		return "", "context error: " + err.Error()
	}
	action := []string{"dispose", "dispose", "cancel+dispose", "rebuild+dispose"}[r.Intn(4)]
	desc := "watch-triggered rebuild held in a load callback; then " + action
	if werr := ctx.Watch(api.WatchOptions{}); werr != nil {
		ctx.Dispose()
		return "", "watch error: " + werr.Error()
	}
	// wait for the initial build, then edit
	deadline := time.Now().Add(20 * time.Second)
	for atomic.LoadInt64(&ends) < 1 && time.Now().Before(deadline) {
		time.Sleep(5 * time.Millisecond)
	}
	time.Sleep(time.Duration(r.Intn(30)) * time.Millisecond)
	os.WriteFile(filepath.Join(dir, "src/b.js"), []byte(fmt.Sprintf("console.log(%d);\n", 3+r.Intn(100))), 0644)
	select {
	case <-entered:
	case <-time.After(30 * time.Second):
		close(release)
		ctx.Dispose()
		return "", "" // the watcher did not start a rebuild in time: inconclusive
	}
	endsBefore := atomic.LoadInt64(&ends)
	done := make(chan string, 1)
	go func() {
		switch action {
		case "cancel+dispose":
			ctx.Cancel()
		case "rebuild+dispose":
			ctx.Rebuild()
		}
		ctx.Dispose()
		if atomic.LoadInt64(&ends) <= endsBefore {
			done <- "Dispose returned before the end callback of the running (watch-triggered) build had run"
			return
		}
		done <- ""
	}()
	time.Sleep(time.Duration(20+r.Intn(200)) * time.Millisecond)
	close(release)
	select {
	case bad := <-done:
		return desc, bad
	case <-time.After(30 * time.Second):
		return desc, "deadlock: " + action + " did not return within 30 s after the held load callback was released"
	}
}

func init() {
	searches["c20-watch"] = func(r *gen.Rand, count int, workdir string, rep *Report) {
		rep.Rule = "a watching context whose watcher-started rebuild is held inside a load callback while Dispose / Cancel+Dispose / Rebuild+Dispose is called from another goroutine, then released after 20-220 ms: every call returns within 30 s and Dispose only after the end callback of the held build. non-trivial = the watcher started the rebuild"
		for i := 0; i < count; i++ {
			seed := r.U64()
			desc, bad := c20WatchDispose(gen.New(seed), filepath.Join(workdir, "c20w"))
			rep.Evaluations++
			if desc != "" {
				rep.DistinctNontrivial++
			} else if bad == "" {
				rep.Inconclusive++
			}
			if bad != "" {
				rep.violate("c20/watch-dispose", bad+" ["+desc+"]", c20Replay{Scenario: "watch", Seed: seed, Diff: bad})
				if strings.HasPrefix(bad, "deadlock") {
					break // the stuck goroutines stay; further runs in this process are not meaningful
				}
			}
		}
		os.RemoveAll(filepath.Join(workdir, "c20w"))
	}
	replays["c20-watch"] = func(cj json.RawMessage, workdir string, rep *Report) {
		var c c20Replay
		json.Unmarshal(cj, &c)
		rep.Evaluations++
		if _, bad := c20WatchDispose(gen.New(c.Seed), filepath.Join(workdir, "c20w")); bad != "" {
			rep.violate("replay/watch-dispose", bad, c)
		}
	}
	searches["c20-plugins"] = func(r *gen.Rand, count int, workdir string, rep *Report) {
		rep.Rule = "builds (one-shot and contexts with concurrent joiners) with 1-2 plugins that register 1-3 delayed start callbacks, resolve and load callbacks on every path and 1-3 end callbacks (one may fail), over module graphs with repeated imports, cycles, several entry points and injected files; the stamped callback log must show: all start callbacks finished before the first resolve/load, every module loaded at most once per build, every end callback at most once and after the outputs exist, all end callbacks up to the first failing one. non-trivial = a build ran"
		for i := 0; i < count; i++ {
			seed := r.U64()
			desc, bad := c20PluginScenario(gen.New(seed), filepath.Join(workdir, "c20p"))
			rep.Evaluations++
			if desc != "" {
				rep.DistinctNontrivial++
			}
			if bad != "" {
				rep.violate("c20/callback-order", bad+" ["+desc+"]", c20Replay{Scenario: "plugins", Seed: seed, Diff: bad})
			}
		}
		os.RemoveAll(filepath.Join(workdir, "c20p"))
	}
	replays["c20-plugins"] = func(cj json.RawMessage, workdir string, rep *Report) {
		var c c20Replay
		json.Unmarshal(cj, &c)
		rep.Evaluations++
		if _, bad := c20PluginScenario(gen.New(c.Seed), filepath.Join(workdir, "c20p")); bad != "" {
			rep.violate("replay/callback-order", bad, c)
		}
	}
	searches["c20-race"] = func(r *gen.Rand, count int, workdir string, rep *Report) {
		rep.Rule = "the c20-plugins scenarios and the context hammering of the ctx correspondence kernel (goroutines calling Rebuild/Cancel/Dispose while the entry file is edited) executed by binaries built with the Go race detector; a DATA RACE report, a crash or a run that does not finish within its deadline (deadlock) is a violation. non-trivial = a race-enabled run completed"
		bin := os.Getenv("VERIF_BIN")
		if bin == "" {
			bin = "/verif/.build/bin"
		}
		os.MkdirAll(workdir, 0755)
		runs := [][]string{
			{filepath.Join(bin, "hapi-race"), "c20-plugins", fmt.Sprint(r.U64() % 100000), fmt.Sprint(count), filepath.Join(workdir, "race-plugins")},
			{filepath.Join(bin, "hinternal-race"), "ctx", fmt.Sprint(r.U64() % 100000), fmt.Sprint(count * 3), filepath.Join(workdir, "race-ops"), filepath.Join(workdir, "race-exp"), filepath.Join(workdir, "race-stats")},
		}
		for _, argv := range runs {
			if _, err := os.Stat(argv[0]); err != nil {
				rep.Inconclusive++
				rep.stat("race-binary-missing:" + filepath.Base(argv[0]))
				continue
			}
			cmd := exec.Command("timeout", append([]string{"-k", "5", "600"}, argv...)...)
			cmd.Env = append(os.Environ(), "GORACE=halt_on_error=0")
			out, err := cmd.CombinedOutput()
			rep.Evaluations++
			text := string(out)
			name := filepath.Base(argv[0]) + " " + argv[1]
			if i := strings.Index(text, "WARNING: DATA RACE"); i >= 0 {
				end := i + 1500
				if end > len(text) {
					end = len(text)
				}
				rep.violate("c20/data-race", name+": "+text[i:end], c20Replay{Scenario: strings.Join(argv[1:4], " ")})
				continue
			}
			if err != nil {
				tail := text
				if len(tail) > 600 {
					tail = tail[len(tail)-600:]
				}
				cls := "c20/race-run-failed"
				if strings.Contains(err.Error(), "124") || strings.Contains(err.Error(), "137") {
					cls = "c20/deadlock-or-timeout"
				}
				rep.violate(cls, name+": "+err.Error()+": "+tail, c20Replay{Scenario: strings.Join(argv[1:4], " ")})
				continue
			}
			rep.DistinctNontrivial++
			rep.stat("race-run-ok:" + name)
		}
	}
	replays["c20-race"] = func(cj json.RawMessage, workdir string, rep *Report) {
		rep.Evaluations++
	}
}
