package main

import (
	"encoding/json"
	"fmt"
	"os"
	"path/filepath"
	"strings"

	"github.com/evanw/esbuild/pkg/api"
	"github.com/evanw/esbuild/verifharness/gen"
)

// c06-erase: (A) a program with type syntax in every erasable position compiles to the same code as the same
// program with those segments deleted; (B) the untyped program compiles identically under the ts and js loaders.

type c06Replay struct {
	Marked  string `json:"marked"`
	Loader  string `json:"loader"`
	OptName string `json:"opt_name"`
	Diff    string `json:"diff,omitempty"`
	Typed   string `json:"typed,omitempty"`
	Untyped string `json:"untyped,omitempty"`
}

func c06Transform(src string, loader string, opt string) (string, string) {
	o := optsFromName(opt)
	switch loader {
	case "ts":
		o.Loader = api.LoaderTS
	case "tsx":
		o.Loader = api.LoaderTSX
	case "js":
		o.Loader = api.LoaderJS
	case "jsx":
		o.Loader = api.LoaderJSX
	}
	o.LogLevel = api.LogLevelSilent
	var res api.TransformResult
	pan := ""
	func() {
		defer func() {
			if r := recover(); r != nil {
				pan = fmt.Sprint(r)
			}
		}()
		res = api.Transform(src, o)
	}()
	if pan != "" {
		return "", "PANIC " + pan
	}
	if len(res.Errors) > 0 {
		e := res.Errors[0]
		loc := ""
		if e.Location != nil {
			loc = fmt.Sprintf(" at %d:%d: %s", e.Location.Line, e.Location.Column, e.Location.LineText)
		}
		return "", e.Text + loc
	}
	return string(res.Code), ""
}

func firstLineDiff(a, b string) string {
	la, lb := strings.Split(a, "\n"), strings.Split(b, "\n")
	for i := 0; i < len(la) || i < len(lb); i++ {
		x, y := "", ""
		if i < len(la) {
			x = la[i]
		}
		if i < len(lb) {
			y = lb[i]
		}
		if x != y {
			return fmt.Sprintf("line %d: %q vs %q", i+1, x, y)
		}
	}
	return ""
}

func c06Case(rep *Report, class string, marked, loader, opt string) {
	typed, untyped := gen.RenderTyped(marked), gen.RenderUntyped(marked)
	rp := c06Replay{Marked: marked, Loader: loader, OptName: opt, Typed: typed, Untyped: untyped}
	rep.Evaluations++
	outU, errU := c06Transform(untyped, loader, opt)
	if errU != "" {
		if strings.HasPrefix(errU, "PANIC") {
			rep.violate(class+"/panic", errU, rp)
			return
		}
		// the untyped rendering is not a valid program: a generator limitation, nothing is compared
		rep.Inconclusive++
		rep.stat("untyped-invalid")
		if len(rep.Samples) < 4 {
			rep.Samples = append(rep.Samples, map[string]interface{}{"untyped_invalid": errU})
		}
		return
	}
	rep.DistinctNontrivial++
	outT, errT := c06Transform(typed, loader, opt)
	if errT != "" {
		rp.Diff = errT
		rep.violate(class+"/typed-rejected", "the typed program is rejected although its untyped counterpart compiles: "+errT, rp)
		return
	}
	// (the generator never asks for --minify-identifiers: short names are handed out by the character
	// frequency of the whole source text, type annotations included: known finding
	// c06-minified-names-depend-on-type-text)
	same := outT == outU
	if !same {
		rp.Diff = firstLineDiff(outT, outU)
		rep.violate(class+"/erasure-differs", "typed and untyped programs compile to different code ("+loader+", "+opt+"): "+rp.Diff, rp)
		return
	}
	if strings.Contains(opt, "tsconfig=") {
		return // tsconfig options (class-field semantics, target) apply to TypeScript files only, on purpose
	}
	jsLoader := "js"
	if loader == "tsx" {
		jsLoader = "jsx"
	}
	outJ, errJ := c06Transform(untyped, jsLoader, opt)
	if errJ != "" {
		rp.Diff = errJ
		rep.violate(class+"/js-loader-rejects", "the untyped program compiles with the "+loader+" loader but not with "+jsLoader+": "+errJ, rp)
		return
	}
	rep.stat("compared-js-loader")
	if outJ != outU {
		rp.Diff = firstLineDiff(outU, outJ)
		rep.violate(class+"/js-vs-ts-loader-differs", "the untyped (JavaScript) program compiles differently under "+loader+" and "+jsLoader+" ("+opt+"): "+rp.Diff, rp)
	}
}

func init() {
	searches["c06-erase"] = func(r *gen.Rand, count int, workdir string, rep *Report) {
		rep.Rule = "programs from gen/tsgen.go: every erasable piece of TypeScript syntax (annotations on variables/params/returns/fields, generics with constraints/defaults/variance/const, interfaces, type aliases, declare forms, abstract classes and members, overloads, import/export type, as/satisfies/non-null/angle casts, access modifiers, optional/definite/declare fields, index signatures, this-parameters, assertion signatures, generic calls/new/tagged templates/instantiation expressions; types drawn from a recursive type grammar incl. conditional/infer/mapped/template-literal/import types and >>/>>> closers) is wrapped in erasure markers. (A) typed rendering vs untyped rendering must compile to identical code under ts and tsx; (B) the untyped rendering must compile identically under the ts and js loaders; includes TypeScript contextual keywords used as identifiers before line breaks. x minify x target x useDefineForClassFields. non-trivial = untyped rendering compiles"
		for i := 0; i < count; i++ {
			gr := r.Fork()
			tsx := gr.Chance(1, 4)
			g := gen.NewTSGen(gr, tsx)
			loader := "ts"
			if tsx {
				loader = "tsx"
			}
			opt := pickS(gr, "", "", "ms", "ms,mw", "target=es2017", "target=es2020,ms", "tsconfig={\"compilerOptions\":{\"useDefineForClassFields\":false}}", "tsconfig={\"compilerOptions\":{\"target\":\"es2020\"}}", "tsconfig={\"compilerOptions\":{\"verbatimModuleSyntax\":true}}", "fmt=cjs", "kn")
			g.NoInlineTypeImports = strings.Contains(opt, "verbatimModuleSyntax")
			marked := g.Program(2 + gr.Intn(7))
			mergeStats(rep, "gen:", g.Stats)
			c06Case(rep, "c06", marked, loader, opt)
		}
	}
	replays["c06-erase"] = func(c json.RawMessage, workdir string, rep *Report) {
		var rp c06Replay
		json.Unmarshal(c, &rp)
		c06Case(rep, "replay", rp.Marked, rp.Loader, rp.OptName)
	}
}

// c06-tsrun: TypeScript-only run-time constructs against the generator's own reference semantics.

type c06RunReplay struct {
	Files    map[string]string `json:"files"`
	OptName  string            `json:"opt_name"`
	Expected []string          `json:"expected"`
	Diff     string            `json:"diff,omitempty"`
	Output   string            `json:"output,omitempty"`
}

func c06RunBatch(rep *Report, workdir string, class string, progs []*gen.TSRunProgram, opts []string) {
	ncases := []nodeCase{}
	outputs := map[int]string{}
	for i, pr := range progs {
		dir := filepath.Join(workdir, fmt.Sprintf("tsrun-%d", i))
		os.RemoveAll(dir)
		writeTree(dir, pr.Files)
		bo := buildOptsFromName(opts[i], dir, []string{pr.Entry}, "out")
		res, pan := buildSafe(bo)
		os.RemoveAll(dir)
		rp := c06RunReplay{Files: pr.Files, OptName: opts[i], Expected: pr.Expected}
		if pan != "" {
			rep.Evaluations++
			rep.violate(class+"/panic", pan, rp)
			continue
		}
		if len(res.Errors) > 0 {
			rep.Evaluations++
			rp.Diff = msgsText(res.Errors)
			rep.violate(class+"/build-error", "a valid TypeScript program is rejected: "+rp.Diff, rp)
			continue
		}
		code := ""
		for _, f := range res.OutputFiles {
			if strings.HasSuffix(f.Path, ".js") {
				code = string(f.Contents)
			}
		}
		outputs[i] = code
		ncases = append(ncases, nodeCase{ID: i, Variants: []nodeVariant{{Name: opts[i], Code: code, Kind: "cjs"}}})
	}
	results, err := runNode(ncases, filepath.Join(workdir, "tsrun-node"), 8)
	if err != nil {
		rep.stat("node-runner-error")
		fmt.Fprintln(os.Stderr, err)
	}
	for i, pr := range progs {
		rs := results[i]
		if len(rs) == 0 {
			if _, ok := outputs[i]; ok {
				rep.Inconclusive++
			}
			continue
		}
		rep.Evaluations++
		if len(pr.Expected) >= 3 {
			rep.DistinctNontrivial++
		}
		got := rs[0].Trace
		rp := c06RunReplay{Files: pr.Files, OptName: opts[i], Expected: pr.Expected, Output: outputs[i]}
		if rs[0].Outcome != "ok" {
			rp.Diff = rs[0].Outcome
			rep.violate(class+"/throws", "the compiled program throws: "+rs[0].Outcome, rp)
			continue
		}
		diff := ""
		for k := 0; k < len(got) || k < len(pr.Expected); k++ {
			g, e := "<none>", "<none>"
			if k < len(got) {
				g = got[k]
			}
			if k < len(pr.Expected) {
				e = pr.Expected[k]
			}
			if g != e {
				diff = fmt.Sprintf("event %d: TypeScript semantics give %s, compiled program prints %s", k, e, g)
				break
			}
		}
		if diff != "" {
			rp.Diff = diff
			rep.violate(class+"/trace-differs", diff, rp)
		}
	}
}

func init() {
	searches["c06-tsrun"] = func(r *gen.Rand, count int, workdir string, rep *Report) {
		rep.Rule = "TypeScript programs made of run-time constructs (namespace declared in 1-3 merged blocks with exported and local consts and exported functions that read bare names; enum of the same name declared in 0-2 blocks merged with it, members auto-incremented / numeric / string / bare references to earlier members or to module-scope names that a merged namespace also exports; reverse mappings; const and plain enums imported from another file; parameter properties with defaults, override and inheritance) are bundled (x minify x target x useDefineForClassFields) and run in Node; the probe trace must equal the trace the generator derives from TypeScript's scoping and enum rules. non-trivial = expected trace has >= 3 events"
		batch := 40
		for done := 0; done < count; done += batch {
			n := batch
			if count-done < n {
				n = count - done
			}
			progs := []*gen.TSRunProgram{}
			opts := []string{}
			for i := 0; i < n; i++ {
				gr := r.Fork()
				pr := gen.GenTSRun(gr)
				mergeStats(rep, "gen:", pr.Stats)
				progs = append(progs, pr)
				opts = append(opts, "fmt=cjs"+pickS(gr, "", "", ",ms", ",ms,mi,mw", ",target=es2017", ",target=es2015,ms", ",tsconfig={\"compilerOptions\":{\"useDefineForClassFields\":false}}", ",tsconfig={\"compilerOptions\":{\"isolatedModules\":true}}", ",shake=false"))
			}
			c06RunBatch(rep, workdir, "c06run", progs, opts)
		}
	}
	replays["c06-tsrun"] = func(c json.RawMessage, workdir string, rep *Report) {
		var rp c06RunReplay
		json.Unmarshal(c, &rp)
		pr := &gen.TSRunProgram{Files: rp.Files, Entry: "main.ts", Expected: rp.Expected}
		c06RunBatch(rep, workdir, "replay", []*gen.TSRunProgram{pr}, []string{rp.OptName})
	}
}
