// hscan: independent syntax-feature scanner. Parses JavaScript with esbuild's parser configured for
// ESNext (nothing lowered) and walks the AST by reflection, reporting which post-ES5 syntax features
// occur. It does not share code with the lowering passes, so it can judge their output.
//
//	hscan  (stdin: JSON lines {"id":n,"code":"...","target":"es2017","supported":{"arrow":false}})
//	       (stdout: JSON lines {"id":n,"features":[...],"violations":[...],"error":"..."})
package main

import (
	"bufio"
	"encoding/json"
	"fmt"
	"os"
	"reflect"
	"sort"
	"strings"

	"github.com/evanw/esbuild/internal/compat"
	"github.com/evanw/esbuild/internal/config"
	"github.com/evanw/esbuild/internal/js_ast"
	"github.com/evanw/esbuild/internal/js_parser"
	"github.com/evanw/esbuild/internal/logger"
)

type req struct {
	ID        int             `json:"id"`
	Code      string          `json:"code"`
	Target    string          `json:"target"`
	Supported map[string]bool `json:"supported"`
}
type resp struct {
	ID         int      `json:"id"`
	Features   []string `json:"features"`
	Violations []string `json:"violations"`
	Exports    []string `json:"exports"`     // names the code exports (keys of the parsed NamedExports)
	ExportStar bool     `json:"export_star"` // the code has an `export * from` statement
	Error      string   `json:"error,omitempty"`
}

type scanner struct{ found map[compat.JSFeature]bool }

func (s *scanner) mark(f compat.JSFeature) { s.found[f] = true }

var exprType = reflect.TypeOf(js_ast.Expr{})
var stmtType = reflect.TypeOf(js_ast.Stmt{})

func (s *scanner) walk(v reflect.Value, depth int) {
	if depth > 3000 {
		return
	}
	switch v.Kind() {
	case reflect.Ptr, reflect.Interface:
		if v.IsNil() {
			return
		}
		if v.CanInterface() {
			s.inspect(v.Interface())
		}
		s.walk(v.Elem(), depth+1)
	case reflect.Struct:
		if v.CanInterface() {
			s.inspect(v.Interface())
		}
		for i := 0; i < v.NumField(); i++ {
			if v.Type().Field(i).PkgPath != "" {
				continue // unexported
			}
			s.walk(v.Field(i), depth+1)
		}
	case reflect.Slice, reflect.Array:
		for i := 0; i < v.Len(); i++ {
			s.walk(v.Index(i), depth+1)
		}
	}
}

func (s *scanner) fn(fn *js_ast.Fn) {
	if fn.IsAsync && fn.IsGenerator {
		s.mark(compat.AsyncGenerator)
	} else if fn.IsAsync {
		s.mark(compat.AsyncAwait)
	} else if fn.IsGenerator {
		s.mark(compat.Generator)
	}
	if fn.HasRestArg {
		s.mark(compat.RestArgument)
	}
	for _, a := range fn.Args {
		if a.DefaultOrNil.Data != nil {
			s.mark(compat.DefaultArgument)
		}
		switch a.Binding.Data.(type) {
		case *js_ast.BArray, *js_ast.BObject:
			s.mark(compat.Destructuring)
		}
	}
}

func (s *scanner) class(c *js_ast.Class) {
	s.mark(compat.Class)
	for _, p := range c.Properties {
		isStatic := p.Flags.Has(js_ast.PropertyIsStatic)
		_, isPrivate := p.Key.Data.(*js_ast.EPrivateIdentifier)
		switch p.Kind {
		case js_ast.PropertyClassStaticBlock:
			s.mark(compat.ClassStaticBlocks)
		case js_ast.PropertyField:
			switch {
			case isPrivate && isStatic:
				s.mark(compat.ClassPrivateStaticField)
			case isPrivate:
				s.mark(compat.ClassPrivateField)
			case isStatic:
				s.mark(compat.ClassStaticField)
			default:
				s.mark(compat.ClassField)
			}
		case js_ast.PropertyMethod:
			if isPrivate && isStatic {
				s.mark(compat.ClassPrivateStaticMethod)
			} else if isPrivate {
				s.mark(compat.ClassPrivateMethod)
			}
		case js_ast.PropertyGetter, js_ast.PropertySetter:
			if isPrivate && isStatic {
				s.mark(compat.ClassPrivateStaticAccessor)
			} else if isPrivate {
				s.mark(compat.ClassPrivateAccessor)
			}
		case js_ast.PropertyAutoAccessor:
			s.mark(compat.Decorators)
		}
	}
	if len(c.Decorators) > 0 {
		s.mark(compat.Decorators)
	}
}

func (s *scanner) inspect(x interface{}) {
	switch e := x.(type) {
	case *js_ast.EBinary:
		switch e.Op {
		case js_ast.BinOpNullishCoalescing:
			s.mark(compat.NullishCoalescing)
		case js_ast.BinOpPow, js_ast.BinOpPowAssign:
			s.mark(compat.ExponentOperator)
		case js_ast.BinOpLogicalOrAssign, js_ast.BinOpLogicalAndAssign, js_ast.BinOpNullishCoalescingAssign:
			s.mark(compat.LogicalAssignment)
		case js_ast.BinOpIn:
			if _, ok := e.Left.Data.(*js_ast.EPrivateIdentifier); ok {
				s.mark(compat.ClassPrivateBrandCheck)
			}
		case js_ast.BinOpAssign:
			switch e.Left.Data.(type) {
			case *js_ast.EArray, *js_ast.EObject:
				s.mark(compat.Destructuring)
			}
		}
	case *js_ast.EDot:
		if e.OptionalChain != js_ast.OptionalChainNone {
			s.mark(compat.OptionalChain)
		}
	case *js_ast.EIndex:
		if e.OptionalChain != js_ast.OptionalChainNone {
			s.mark(compat.OptionalChain)
		}
	case *js_ast.ECall:
		if e.OptionalChain != js_ast.OptionalChainNone {
			s.mark(compat.OptionalChain)
		}
		for _, a := range e.Args {
			if _, ok := a.Data.(*js_ast.ESpread); ok {
				s.mark(compat.RestArgument)
			}
		}
	case *js_ast.ENew:
		for _, a := range e.Args {
			if _, ok := a.Data.(*js_ast.ESpread); ok {
				s.mark(compat.RestArgument)
			}
		}
	case *js_ast.EArray:
		for _, a := range e.Items {
			if _, ok := a.Data.(*js_ast.ESpread); ok {
				s.mark(compat.ArraySpread)
			}
		}
	case *js_ast.EObject:
		for _, p := range e.Properties {
			if p.Kind == js_ast.PropertySpread {
				s.mark(compat.ObjectRestSpread)
			}
			if p.Kind == js_ast.PropertyGetter || p.Kind == js_ast.PropertySetter {
				s.mark(compat.ObjectAccessors)
			}
			if p.Flags.Has(js_ast.PropertyIsComputed) || p.Kind == js_ast.PropertyMethod || p.Flags.Has(js_ast.PropertyWasShorthand) {
				s.mark(compat.ObjectExtensions)
			}
		}
	case *js_ast.EArrow:
		s.mark(compat.Arrow)
		if e.IsAsync {
			s.mark(compat.AsyncAwait)
		}
		if e.HasRestArg {
			s.mark(compat.RestArgument)
		}
		for _, a := range e.Args {
			if a.DefaultOrNil.Data != nil {
				s.mark(compat.DefaultArgument)
			}
			switch a.Binding.Data.(type) {
			case *js_ast.BArray, *js_ast.BObject:
				s.mark(compat.Destructuring)
			}
		}
	case *js_ast.EFunction:
		s.fn(&e.Fn)
	case *js_ast.SFunction:
		s.fn(&e.Fn)
	case *js_ast.EClass:
		s.class(&e.Class)
	case *js_ast.SClass:
		s.class(&e.Class)
	case *js_ast.EAwait:
		s.mark(compat.AsyncAwait)
	case *js_ast.EYield:
		s.mark(compat.Generator)
	case *js_ast.ETemplate:
		s.mark(compat.TemplateLiteral)
	case *js_ast.EBigInt:
		s.mark(compat.Bigint)
	case *js_ast.ENewTarget:
		s.mark(compat.NewTarget)
	case *js_ast.EImportMeta:
		s.mark(compat.ImportMeta)
	case *js_ast.SForOf:
		s.mark(compat.ForOf)
		if e.Await.Len > 0 {
			s.mark(compat.ForAwait)
		}
	case *js_ast.SLocal:
		if e.Kind == js_ast.LocalLet || e.Kind == js_ast.LocalConst {
			s.mark(compat.ConstAndLet)
		}
		if e.Kind == js_ast.LocalUsing || e.Kind == js_ast.LocalAwaitUsing {
			s.mark(compat.Using)
		}
		for _, d := range e.Decls {
			switch d.Binding.Data.(type) {
			case *js_ast.BArray, *js_ast.BObject:
				s.mark(compat.Destructuring)
			}
		}
	case *js_ast.BObject:
		for _, p := range e.Properties {
			if p.IsSpread {
				s.mark(compat.ObjectRestSpread)
			}
		}
	case *js_ast.STry:
		if e.Catch != nil && e.Catch.BindingOrNil.Data == nil {
			s.mark(compat.OptionalCatchBinding)
		}
	case *js_ast.EPrivateIdentifier:
		// counted through the class members that declare it
	}
}

var targets = map[string][]int{"es2015": {2015}, "es2016": {2016}, "es2017": {2017}, "es2018": {2018}, "es2019": {2019}, "es2020": {2020}, "es2021": {2021}, "es2022": {2022}, "es2023": {2023}, "es2024": {2024}, "esnext": nil}

func featureName(f compat.JSFeature) string {
	for k, v := range compat.StringToJSFeature {
		if v == f {
			return k
		}
	}
	return fmt.Sprint(uint64(f))
}

func main() {
	in := bufio.NewScanner(os.Stdin)
	in.Buffer(make([]byte, 1<<20), 1<<28)
	out := bufio.NewWriter(os.Stdout)
	defer out.Flush()
	for in.Scan() {
		var r req
		if json.Unmarshal(in.Bytes(), &r) != nil {
			continue
		}
		res := resp{ID: r.ID, Features: []string{}, Violations: []string{}}
		func() {
			defer func() {
				if p := recover(); p != nil {
					res.Error = fmt.Sprint("panic: ", p)
				}
			}()
			log := logger.NewDeferLog(logger.DeferLogNoVerboseOrDebug, nil)
			tree, ok := js_parser.Parse(log, logger.Source{Contents: r.Code, KeyPath: logger.Path{Text: "<scan>"}, PrettyPaths: logger.PrettyPaths{Abs: "<scan>", Rel: "<scan>"}}, js_parser.OptionsFromConfig(&config.Options{}))
			if !ok || log.HasErrors() {
				msgs := []string{}
				for _, m := range log.Done() {
					if m.Kind == logger.Error {
						msgs = append(msgs, m.Data.Text)
					}
				}
				res.Error = "parse error: " + strings.Join(msgs, " | ")
				return
			}
			res.Exports = []string{}
			for name := range tree.NamedExports {
				res.Exports = append(res.Exports, name)
			}
			sort.Strings(res.Exports)
			res.ExportStar = len(tree.ExportStarImportRecords) > 0
			s := &scanner{found: map[compat.JSFeature]bool{}}
			for i := range tree.Parts {
				s.walk(reflect.ValueOf(tree.Parts[i].Stmts), 0)
			}
			var unsupported compat.JSFeature
			if parts, ok := targets[r.Target]; ok && parts != nil {
				unsupported = compat.UnsupportedJSFeatures(map[compat.Engine]compat.Semver{compat.ES: {Parts: parts}})
			} else if strings.HasPrefix(r.Target, "engine=") {
				// engine=chrome:80
				kv := strings.SplitN(r.Target[7:], ":", 2)
				engines := map[string]compat.Engine{"chrome": compat.Chrome, "firefox": compat.Firefox, "safari": compat.Safari, "node": compat.Node, "edge": compat.Edge, "ios": compat.IOS, "opera": compat.Opera}
				if e, ok := engines[kv[0]]; ok && len(kv) == 2 {
					parts := []int{}
					for _, x := range strings.Split(kv[1], ".") {
						n := 0
						fmt.Sscan(x, &n)
						parts = append(parts, n)
					}
					unsupported = compat.UnsupportedJSFeatures(map[compat.Engine]compat.Semver{e: {Parts: parts}})
				}
			}
			for name, sup := range r.Supported {
				if f, ok := compat.StringToJSFeature[name]; ok {
					if sup {
						unsupported &^= f
					} else {
						unsupported |= f
					}
				}
			}
			for f := range s.found {
				res.Features = append(res.Features, featureName(f))
				if unsupported&f != 0 {
					res.Violations = append(res.Violations, featureName(f))
				}
			}
			sort.Strings(res.Features)
			sort.Strings(res.Violations)
		}()
		js, _ := json.Marshal(res)
		out.Write(js)
		out.WriteByte('\n')
	}
}
