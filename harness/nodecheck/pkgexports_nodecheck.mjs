// Validation of lean/EsbuildModel/Spec/NodeExports.lean against the real Node binary.
//
//   node [-C cond]... --experimental-import-meta-resolve pkgexports_nodecheck.mjs <seed> <count> <workdir> <ops-out> <node-out>
//
// Generates package.json "exports"/"imports" maps on disk, asks Node itself (require.resolve for the "require"
// condition, import.meta.resolve for "import"), and writes
//   <ops-out>  : one `pkgexports\tspec\t<strict>\t<E|I>\t<conditions>\t<key>\t<tree>` line per case, for strict = 0 and 1
//   <node-out> : what Node answered, in the vocabulary of the specification (`resolved <hex>`, `package <hex>`,
//                `error <class>`), followed by the deprecation codes Node emitted while resolving (DEP0155, DEP0166)
// compare with pkgexports_nodecheck_compare.py after piping <ops-out> through lean/.lake/build/bin/modeldriver.
import fs from 'node:fs'
import path from 'node:path'
import { createRequire } from 'node:module'
import { pathToFileURL, fileURLToPath } from 'node:url'

const [seedArg, countArg, workdir, opsOut, nodeOut] = process.argv.slice(2)
let state = (Number(seedArg) * 2654435761) >>> 0
function rnd() { // mulberry32
  state = (state + 0x6D2B79F5) >>> 0
  let t = state
  t = Math.imul(t ^ (t >>> 15), t | 1)
  t ^= t + Math.imul(t ^ (t >>> 7), t | 61)
  return ((t ^ (t >>> 14)) >>> 0) / 4294967296
}
const intn = n => Math.floor(rnd() * n)
const pick = xs => xs[intn(xs.length)]
const chance = (a, b) => intn(b) < a

const custom = []
for (let i = 0; i < process.execArgv.length; i++) {
  if (process.execArgv[i] === '-C' || process.execArgv[i] === '--conditions') custom.push(process.execArgv[i + 1])
  else if (process.execArgv[i].startsWith('--conditions=')) custom.push(process.execArgv[i].slice(13))
}

const SEGS = ['a', 'b', 'ab', 'x', 'lib', 'dist', 'features', 'internal', 'a.b', 'x.js', 'index.js', 'f-v2', 'A', 'q']
const NASTY = ['..', '.', 'node_modules', '', 'Node_Modules', 'NODE_MODULES', '..a', '.hidden', 'a..', '%2e', '%2E%2e', 'node_%6dodules', '.%2e']
const CONDS = ['import', 'require', 'node', 'default', 'browser', 'custom', 'production', 'development', 'types', 'worker']
const seg = () => chance(1, 9) ? pick(NASTY) : pick(SEGS)
const sep = () => chance(1, 25) ? '\\' : '/'
function relPath(max) { const n = intn(max + 1); let s = ''; for (let i = 0; i < n; i++) { if (i) s += sep(); s += seg() } return s }

let imports = false
function stringTarget(pattern) {
  switch (intn(20)) {
    case 0: return pick(['../x', '../', '..', '/abs/x.js', '/', '', '.', './', '.x', 'x', '.\\a', './.', './..', './node_modules', './*', '*', './**', './a/*/', './*/*'])
    case 1: case 2:
      if (imports) return pick(['other-pkg', 'other-pkg/sub', '@scope/p', '@scope/p/*', 'other-pkg/*', 'other-pkg/*.js', 'zz*', 'other-pkg/', '..x', 'node:fs', 'https://example.com/x', 'a:b', 'c:'])
      return pick(['other-pkg', 'x/y', '*'])
    case 3: return './' + relPath(2) + '/'
  }
  let s = './' + relPath(3)
  if (pattern || chance(1, 6)) {
    switch (intn(6)) {
      case 0: s += '*'; break
      case 1: s += '/*'; break
      case 2: s += '/*.js'; break
      case 3: s += '/*/' + seg() + '.js'; break
      case 4: s += '/*/*.js'; break
      default: s = './*' + s.slice(2)
    }
  } else if (chance(1, 2)) s += '.js'
  return s
}
// trees: ['s', str] | ['n'] | ['x', jsonText] | ['a', items] | ['o', [[key, tree]...]]
function target(depth, pattern) {
  let k = intn(20)
  if (depth <= 0 && k >= 12) k = intn(12)
  if (k < 9) return ['s', stringTarget(pattern)]
  if (k < 11) return ['n']
  if (k < 12) return ['x', pick(['5', 'true', 'false', '0', '1.5'])]
  if (k < 15) { const n = intn(4), items = []; for (let i = 0; i < n; i++) items.push(target(depth - 1, pattern)); return ['a', items] }
  return condObject(depth - 1, pattern)
}
function condObject(depth, pattern) {
  let n = intn(4)
  if (chance(1, 3)) n = 1 + intn(2)
  const props = [], seen = new Set()
  for (let i = 0; i < n; i++) {
    let key = pick(CONDS)
    switch (intn(30)) {
      case 0: key = pick(['0', '1', '42', '01', '4294967294', '4294967295', '-1', '1e3']); break // not "1.5": Node's isArrayIndex wrongly takes it for an array index
      case 1: key = pick(['./x', '.', './*', '.x']); break
      case 2: key = pick(['', 'Default', 'DEFAULT', '#x']); break
    }
    if (seen.has(key)) continue
    seen.add(key)
    props.push([key, target(depth, pattern)])
  }
  return ['o', props]
}
function subpathKey(prefix) {
  let base = prefix + relPath(2)
  if (base === prefix && chance(3, 4)) base += seg()
  switch (intn(12)) {
    case 0: case 1: case 2: case 3:
      if (base === prefix && prefix === './' && chance(1, 2)) return ['.', false]
      return [base, false]
    case 4: case 5: case 6:
      if (base !== prefix && chance(1, 2)) base += '/'
      return [base + '*', true]
    case 7: case 8:
      if (base !== prefix && chance(1, 2)) base += '/'
      return [base + '*' + pick(['.js', '/x', '-v2', '.b', '/index.js', '/', 'x']), true]
    case 9:
      if (base === prefix) return [base, false]
      return [base + '/', false]
    case 10: return [base + '/*/' + seg() + '/*', true]
    default:
      if (chance(1, 2)) return ['.', false]
      return [base + '*', true]
  }
}
function subpathMap(depth) {
  const prefix = imports ? '#' : './'
  const n = 1 + intn(5), props = [], seen = new Set()
  for (let i = 0; i < n; i++) {
    let [key, pattern] = subpathKey(prefix)
    if (chance(1, 60)) key = pick(['import', 'default', 'x', './y', '.'])
    if (seen.has(key)) continue
    seen.add(key)
    props.push([key, target(depth, pattern)])
  }
  return ['o', props]
}
function request(m) {
  const prefix = imports ? '#' : './'
  const fill = () => {
    switch (intn(12)) {
      case 0: return pick(['..', '.', 'node_modules', '../x', './x', 'node_modules/x', 'a/../b', 'a/./b', 'a/node_modules/b', 'a//b', '/a', 'a/', '', '..\\x', 'a\\..\\b', 'Node_Modules/x', '..a/b'])
      case 1: case 2: return relPath(3)
    }
    return seg()
  }
  if (m[0] === 'o' && m[1].length > 0 && !chance(1, 8)) {
    const key = pick(m[1])[0]
    const star = key.indexOf('*')
    if (star >= 0) {
      if (chance(1, 10)) return key.slice(0, star) + key.slice(star + 1)
      if (chance(1, 12)) return key.slice(0, star)
      return key.slice(0, star) + fill() + key.slice(star + 1).replaceAll('*', () => fill())
    }
    if (key.endsWith('/') && chance(4, 5)) return key + fill()
    if (chance(1, 10)) return key + '/'
    return key
  }
  if (chance(1, 6)) return imports ? pick(['#', '#/x', '#/', '#a', '#x/', '#a/b']) : pick(['.', './', './a', './x/'])
  return prefix + seg() + '/' + relPath(2)
}
function toJSON(t) {
  switch (t[0]) {
    case 's': return JSON.stringify(t[1])
    case 'n': return 'null'
    case 'x': return t[1]
    case 'a': return '[' + t[1].map(toJSON).join(', ') + ']'
    case 'o': return '{' + t[1].map(([k, v]) => JSON.stringify(k) + ': ' + toJSON(v)).join(', ') + '}'
  }
}
const hex = s => s === '' ? '-' : Buffer.from(s, 'latin1').toString('hex')
function wire(t, out) {
  switch (t[0]) {
    case 's': out.push('S' + hex(t[1])); break
    case 'n': out.push('N'); break
    case 'x': out.push('X'); break
    case 'a': out.push('A' + t[1].length); t[1].forEach(i => wire(i, out)); break
    case 'o': out.push('O' + t[1].length); t[1].forEach(([k, v]) => { out.push('K' + hex(k)); wire(v, out) }); break
  }
  return out
}

// deprecations are reported through process.emitWarning, synchronously at the point of resolution
let deps = []
process.emitWarning = (msg, type, code) => { if (typeof type === 'object' && type) code = type.code; deps.push(String(code)) }

const CLASS = {
  ERR_PACKAGE_PATH_NOT_EXPORTED: 'notExported', ERR_INVALID_PACKAGE_TARGET: 'invalidTarget', ERR_INVALID_MODULE_SPECIFIER: 'invalidSpecifier',
  ERR_INVALID_PACKAGE_CONFIG: 'invalidConfig', ERR_PACKAGE_IMPORT_NOT_DEFINED: 'importNotDefined',
}
function underPkg(abs, pkgDir) { // a file path → `resolved <hex of path relative to the package, with leading "/">`
  if (abs === pkgDir || abs === pkgDir + '/') return 'resolved ' + hex('/')
  if (abs.startsWith(pkgDir + '/')) return 'resolved ' + hex(abs.slice(pkgDir.length))
  return 'outside ' + hex(abs)
}
function classify(f, pkgDir) {
  try {
    const r = f()
    if (r.startsWith('file://')) {
      // keep the URL path as it is ("//" and a trailing "/" matter); only undo the percent-encoding of plain characters
      return underPkg(decodeURIComponent(new URL(r).pathname), pkgDir)
    }
    if (r.startsWith('node:')) return 'package ' + hex(r)
    return underPkg(r, pkgDir)
  } catch (e) {
    if (CLASS[e.code]) return 'error ' + CLASS[e.code]
    const m = /^Cannot find module '([^']*)'/.exec(e.message)
    if ((e.code === 'MODULE_NOT_FOUND' || e.code === 'ERR_MODULE_NOT_FOUND') && m && m[1].startsWith('/')) return underPkg(m[1], pkgDir)
    const p = /^Cannot find package '([^']*)'/.exec(e.message)
    if (p) return 'package ' + hex(p[1])
    if (m) return 'package ' + hex(m[1])
    return 'unknown ' + hex(String(e.code) + ' ' + e.message.split('\n')[0])
  }
}

const ops = [], outs = []
fs.mkdirSync(workdir, { recursive: true })
let n = 0, caseNo = 0
while (n < Number(countArg)) {
  imports = chance(1, 4)
  const depth = 1 + intn(3)
  let root
  if (imports) root = intn(12) === 0 ? target(depth, false) : subpathMap(depth)
  else switch (intn(12)) {
    case 0: root = ['s', stringTarget(false)]; break
    case 1: root = target(depth, false); break
    case 2: root = condObject(depth, false); break
    default: root = subpathMap(depth)
  }
  if (root[0] === 'n') continue // no map at all: legacy resolution, not part of the algorithm
  const dir = path.join(workdir, 'c' + (caseNo++))
  const pkgDir = imports ? dir : path.join(dir, 'node_modules', 'dep')
  fs.mkdirSync(pkgDir, { recursive: true })
  fs.writeFileSync(path.join(pkgDir, 'package.json'), imports ? `{"name": "root", "imports": ${toJSON(root)}}` : `{"name": "dep", "exports": ${toJSON(root)}}`)
  const parent = path.join(dir, 'zzsrc', 'index.js')
  const tree = wire(root, []).join(' ')
  for (let q = 0; q < 3 && n < Number(countArg); q++) {
    let req = request(root) || '.'
    if (/[?%*]/.test(req) || req.slice(1).includes('#')) continue
    let spec, key
    if (imports) {
      if (!req.startsWith('#')) req = '#' + req.replace(/^\.\/?/, '')
      spec = key = req
    } else {
      if (req !== '.' && !req.startsWith('./')) req = './' + req
      spec = 'dep' + req.slice(1); key = req
    }
    const useImport = chance(1, 2)
    const conds = ['node', useImport ? 'import' : 'require', ...custom]
    deps = []
    const got = useImport
      ? classify(() => import.meta.resolve(spec, pathToFileURL(parent)), pkgDir)
      : classify(() => createRequire(parent).resolve(spec), pkgDir)
    const depCodes = [...new Set(deps)].sort().join(',')
    const cw = conds.map(hex).join(' ')
    for (const strict of [0, 1]) ops.push(`pkgexports\tspec\t${strict}\t${imports ? 'I' : 'E'}\t${cw}\t${hex(key)}\t${tree}`)
    outs.push(got + '\t' + depCodes + '\t' + (useImport ? 'import' : 'require') + '\t' + JSON.stringify({ key, map: JSON.parse(JSON.stringify(toJSON(root))) }))
    n++
  }
}
fs.writeFileSync(opsOut, ops.join('\n') + '\n')
fs.writeFileSync(nodeOut, outs.join('\n') + '\n')
