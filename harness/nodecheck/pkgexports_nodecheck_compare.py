#!/usr/bin/env python3
"""compare what Node answered (pkgexports_nodecheck.mjs) with the Lean specification (modeldriver output).

usage: pkgexports_nodecheck_compare.py <node-out> <driver-out> [max-shown]

Per case the driver gave two lines: the specification with strict=0 (Node 20 as shipped) and strict=1 (as documented).
  * strict=0 must equal Node's answer in every case.
  * strict=1 must equal Node's answer whenever Node emitted no deprecation; where Node emitted DEP0155 / DEP0166 the
    documentation already prescribes an error and the case is counted as "documentation stricter than Node 20".
"""
import sys, binascii, collections, urllib.parse, json


def unhex(h):
    if h == '-':
        return ''
    return binascii.unhexlify(h).decode('latin1')


def pdecode(s):
    # the specification does not model percent-encoding; Node's file paths are decoded, its URLs are not
    return urllib.parse.unquote(s, encoding='latin1')


def same(node, spec):
    if node == spec:
        return True
    n, s = node.split(' '), spec.split(' ')
    if n[0] == 'resolved' and s[0] == 'resolved':
        return pdecode(unhex(n[1])) == pdecode(unhex(s[1]))
    if s[0] == 'package':
        b = unhex(s[1])
        if n[0] == 'package':
            # Node names only the package it could not find / the builtin it resolved to / (CommonJS) the original request
            a = unhex(n[1])
            if a.startswith('node:'):
                a = a[5:]
            return a.startswith('#') or b == a or b.startswith(a + '/')
        # PACKAGE_RESOLVE (outside the specification) rejects what is not a package name
        name = b.split('/')[0]
        if node == 'error invalidSpecifier' and (b == '' or name.startswith('.') or '%' in name or '\\' in name or (name.startswith('@') and '/' not in b)):
            return True
    return False


def main():
    node = open(sys.argv[1]).read().rstrip('\n').split('\n')
    drv = open(sys.argv[2]).read().rstrip('\n').split('\n')
    shown = int(sys.argv[3]) if len(sys.argv) > 3 else 20
    assert len(drv) == 2 * len(node), (len(drv), len(node))
    c = collections.Counter()
    classes = collections.Counter()
    for i, line in enumerate(node):
        got, deps, how, info = line.split('\t', 3)
        lenient, strict = drv[2 * i], drv[2 * i + 1]
        c['cases'] += 1
        classes[got.split(' ')[0] + (' ' + got.split(' ')[1] if got.startswith('error') else '')] += 1
        if same(got, lenient):
            c['strict=0 agrees'] += 1
        else:
            c['strict=0 DISAGREES'] += 1
            if shown > 0:
                shown -= 1
                print('DISAGREE(strict=0) node=%r spec=%r deps=%s %s %s' % (pretty(got), pretty(lenient), deps, how, info))
        key = json.loads(info)['key']
        if same(got, strict):
            c['strict=1 agrees'] += 1
        elif deps != '':
            # Node 20 only warns where the documentation throws
            c['strict=1 differs, Node emitted ' + deps] += 1
            if strict.startswith('error invalid'):
                c['  … documentation throws invalidTarget/invalidSpecifier there'] += 1
            else:
                c['  … documentation goes on to a fallback / later condition'] += 1
        elif key.endswith('/') and strict == 'error invalidSpecifier' and not key.startswith('#'):
            # Node 20 reports DEP0155 only when a pattern is tried; the documentation throws at once
            c['strict=1 differs, exports request ends in "/" (documentation: Invalid Module Specifier; Node 20: ' + got + ')'] += 1
        elif key.endswith('/') and key.startswith('#') and got == 'error invalidSpecifier' and strict == 'error importNotDefined':
            # Node 20 tests the trailing "/" before it looks at "imports"; the documentation only for an object
            c['strict=1 differs, imports request ends in "/" and "imports" is no object (error class only)'] += 1
        else:
            c['strict=1 DISAGREES'] += 1
            if shown > 0:
                shown -= 1
                print('DISAGREE(strict=1) node=%r spec=%r %s %s' % (pretty(got), pretty(strict), how, info))
    for k in sorted(c):
        print('%-70s %d' % (k, c[k]))
    print('node answers by class:', dict(classes))
    sys.exit(1 if c['strict=0 DISAGREES'] or c['strict=1 DISAGREES'] else 0)


def pretty(s):
    p = s.split(' ')
    if p[0] in ('resolved', 'package', 'outside', 'unknown') and len(p) > 1:
        return p[0] + ' ' + unhex(p[1])
    return s


main()
