#!/usr/bin/env python3
"""tools_seeded.py <mutdir> <PROP> [extra check args]
Apply <mutdir>/patch.diff to /repo, run ./check PROP (quick), revert. Prints whether the check caught it."""
import subprocess, sys, os, json, time
mut, prop = sys.argv[1], sys.argv[2]
extra = sys.argv[3:]
patch = os.path.join(mut, "patch.diff")
assert subprocess.run(["git", "-C", "/repo", "status", "--porcelain"], capture_output=True, text=True).stdout.strip() == "", "/repo not clean"
r = subprocess.run(["git", "-C", "/repo", "apply", patch], capture_output=True, text=True)
if r.returncode != 0:
    print("PATCH DOES NOT APPLY", r.stderr[:500]); sys.exit(2)
t0 = time.time()
try:
    env = dict(os.environ)
    r = subprocess.run(["./check", prop] + extra, cwd="/verif", capture_output=True, text=True, env=env, timeout=3600)
    viol = [l for l in r.stdout.splitlines() if l.startswith("VIOLATION")]
    print("%s %s rc=%d wall=%.0fs" % (os.path.basename(os.path.dirname(mut + "/")) + "/" + os.path.basename(mut.rstrip("/")), prop, r.returncode, time.time() - t0))
    kinds = {}
    for v in viol:
        try:
            o = json.load(open(v.split("replay=")[1].split()[0]))
            k = (o.get("kind") or "?") + ":" + str(o.get("name") or o.get("search") or (o.get("class") or "").split("/")[0])
            kinds[k] = kinds.get(k, 0) + 1
        except Exception:
            pass
    print("   kinds:", kinds)
    try:
        ev = json.load(open("/verif/evidence/%s.json" % prop))
        print("   broken obligations/ties:", [(b.get("kind"), b.get("name")) for b in ev["coverage"].get("broken", [])])
        print("   correspondence disagreements:", {c["kernel"]: c["disagreement_count"] for c in ev["coverage"].get("correspondence", [])})
    except Exception as e:
        print("   (no evidence)", e)
    subprocess.run(["git", "-C", "/verif", "checkout", "--", "evidence/%s.json" % prop])
    for v in viol[:4]:
        print("  ", v)
        path = v.split("replay=")[1].split()[0]
        try:
            o = json.load(open(path))
            print("     ", o.get("kind"), "|", (o.get("class") or o.get("name") or "")[:120], "|", (o.get("what") or str(o.get("detail")) or "")[:300].replace("\n", " "))
        except Exception as e:
            print("     (cannot read replay)", e)
    if not viol:
        print("   NOT DETECTED", r.stderr[-300:])
finally:
    subprocess.run(["git", "-C", "/repo", "checkout", "--", "."])
    subprocess.run(["git", "-C", "/repo", "clean", "-fdq", "internal", "pkg", "cmd"])
