#!/usr/bin/env python3
"""tools_dumpviol.py rep.json <class-substring> <dir>: write the first matching violation's files to dir"""
import json, sys, os
r = json.load(open(sys.argv[1]))
for v in r['violations']:
    if sys.argv[2] in v['class']:
        d = sys.argv[3]
        os.makedirs(d, exist_ok=True)
        rp = v['replay']
        for f, c in (rp.get('files') or {}).items():
            os.makedirs(os.path.dirname(os.path.join(d, 'src', f)), exist_ok=True)
            open(os.path.join(d, 'src', f), 'w').write(c)
        for f, c in (rp.get('outputs') or {}).items():
            os.makedirs(os.path.dirname(os.path.join(d, 'out', f)) , exist_ok=True)
            open(os.path.join(d, 'out', f), 'w').write(c)
        if 'source' in rp:
            open(os.path.join(d, 'in.js'), 'w').write(rp['source'])
            open(os.path.join(d, 'out.js'), 'w').write(rp.get('output') or '')
        print(v['class'], v['what'][:500]); print('opt:', rp.get('opt_name'))
        break
