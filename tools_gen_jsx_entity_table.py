# usage: tools_gen_jsx_entity_table.py [repo] [verif]  — rewrites Impl/JsxEntityTable.lean and k_jsxtext_names.go from tables.go
import re, os, sys
REPO = sys.argv[1] if len(sys.argv) > 1 else '/repo'
VERIF = sys.argv[2] if len(sys.argv) > 2 else '/verif'
src = open(os.path.join(REPO,'internal/js_lexer/tables.go')).read()
start = src.index('var jsxEntity = map[string]rune{')
body = src[start:src.index('\n}', start)]
ents = re.findall(r'"(\w+)":\s*0x([0-9A-Fa-f]+),', body)
assert len(ents) == 253, len(ents)
out = []
out.append('/-')
out.append('The named character references of JSX as esbuild has them: `jsxEntity` in internal/js_lexer/tables.go (253 entries,')
out.append('taken by esbuild from the TypeScript compiler = the HTML 4 entity set plus `apos`), transcribed mechanically')
out.append('(tools_gen_jsx_entity_table.py); names are spelled as lists of code points so that `decide` can evaluate look-ups.')
out.append('The correspondence kernel `jsxtext` looks every name of the table up through the real lexer.')
out.append('-/')
out.append('namespace EsbuildModel.JsxText')
out.append('')
out.append('/-- `(name, code point)` in the order of tables.go -/')
out.append('def jsxEntityTable : List (List Nat × Nat) := [')
for i,(n,v) in enumerate(ents):
    cps = ','.join(str(ord(c)) for c in n)
    sep = ',' if i+1 < len(ents) else ''
    out.append(f'  ([{cps}], 0x{v.upper()}){sep} -- {n}')
out.append(']')
out.append('')
out.append('/-- `value, ok := jsxEntity[entity]` -/')
out.append('def jsxEntity (name : List Nat) : Option Nat :=')
out.append('  (jsxEntityTable.find? (fun p => p.1 == name)).map (·.2)')
out.append('')
out.append('end EsbuildModel.JsxText')
open(os.path.join(VERIF,'lean/EsbuildModel/Impl/JsxEntityTable.lean'),'w').write('\n'.join(out)+'\n')
# Go list of names for the harness
go = ['package main', '', '// names of js_lexer.jsxEntity (tables.go), for the generator of kernel jsxtext', 'var jsxtextEntityNames = []string{']
line = '\t'
for n,_ in ents:
    item = f'"{n}", '
    if len(line) + len(item) > 110:
        go.append(line.rstrip()); line = '\t'
    line += item
go.append(line.rstrip()); go.append('}')
open(os.path.join(VERIF,'harness/cmd/hinternal/k_jsxtext_names.go'),'w').write('\n'.join(go)+'\n')
