#!/bin/sh
# tools_confirm_seed.sh <out-dir> : independent confirmation of a seeded change (patch.diff + demo.sh) in a scratch worktree.
# Prints a JSON line: compiles, vet, tests, demo rc on clean and on changed tree. Removes the worktree afterwards.
set -u
OUT="$1"; ID="$(basename "$OUT")"
export GOFLAGS=-mod=mod GOPROXY=off GOSUMDB=off GOTOOLCHAIN=local
WT="/tmp/confirm-$ID"
git -C /repo worktree remove --force "$WT" >/dev/null 2>&1
git -C /repo worktree add --detach "$WT" HEAD >/dev/null 2>&1 || { echo "{\"id\":\"$ID\",\"error\":\"worktree\"}"; exit 2; }
cd "$WT"
go build -o "$OUT/confirm-esbuild-clean" ./cmd/esbuild || { echo "{\"id\":\"$ID\",\"error\":\"clean build\"}"; exit 2; }
if grep -q 'demo/' "$OUT/demo.sh" 2>/dev/null && [ -d "$OUT/demo" ]; then ARG_CLEAN="$WT"; ARG_MUT="$WT"; GOAPI=1; else ARG_CLEAN="$OUT/confirm-esbuild-clean"; ARG_MUT="$OUT/confirm-esbuild-mut"; GOAPI=0; fi
sh "$OUT/demo.sh" "$ARG_CLEAN" >"$OUT/confirm-demo-clean.log" 2>&1; RC_CLEAN=$?
git apply "$OUT/patch.diff" || { echo "{\"id\":\"$ID\",\"error\":\"patch does not apply\"}"; cd /; git -C /repo worktree remove --force "$WT"; exit 2; }
COMPILES=true; go build ./... >/dev/null 2>"$OUT/confirm-build.log" || COMPILES=false
VET=true; go vet ./internal/... ./pkg/... ./cmd/... >/dev/null 2>"$OUT/confirm-vet.log" || VET=false
go build -o "$OUT/confirm-esbuild-mut" ./cmd/esbuild
go test -vet=off -count=1 ./internal/... ./pkg/... ./cmd/... >"$OUT/confirm-tests.log" 2>&1; TESTS_RC=$?
FAILS=$(grep -c '^--- FAIL\|^FAIL' "$OUT/confirm-tests.log")
sh "$OUT/demo.sh" "$ARG_MUT" >"$OUT/confirm-demo-mut.log" 2>&1; RC_MUT=$?
cd /; git -C /repo worktree remove --force "$WT"
rm -f "$OUT/confirm-esbuild-clean" "$OUT/confirm-esbuild-mut"
echo "{\"id\":\"$ID\",\"compiles\":$COMPILES,\"vet\":$VET,\"tests_rc\":$TESTS_RC,\"test_fail_lines\":$FAILS,\"demo_clean_rc\":$RC_CLEAN,\"demo_mut_rc\":$RC_MUT,\"go_api_demo\":$GOAPI}" | tee "$OUT/confirm.json"
